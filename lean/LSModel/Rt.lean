import LSModel.Handle
import LSModel.Decode
/-!
# Runtime library for the *translated* `src/repr.rs` (tools/rs2lean.py → LSModel/GenRepr.lean)

The translator turns the body of a Rust function into a term of the monad `M ρ α` below, in
A-normal form: every call is bound, `?` is `try_`, `return e` is `ret`, `*self = e` is `Repr.assign`,
`if`/`match` stay what they are.  It knows nothing about the meaning of a call: `heap.is_unique()`
becomes `heap.rs_is_unique`, `HeapBuffer::new(s)` becomes `HeapBuffer.new s`, `self.len()` becomes
`Repr.len`.  This file gives those names their meaning over the model's heap (`Basic.lean`) and
handle (`Handle.lean`): it is the hand-written part, and it contains no control flow of `repr.rs`.

* state `St`: the allocator oracle and the static texts (read-only), the heap, and `self` (the two
  words of the `Repr` the method was called on);
* `Step ρ α`: the statement fell through with a value (`next`), the function returned early
  (`done`, which is also what `?` does on `Err`), an `assert!` failed (`pidx`), or the model's alarm.
-/
namespace LS.Rt

structure St where
  rf   : Refuse
  st   : List Bytes
  hp   : Heap
  self : Handle

inductive Step (ρ α : Type)
  | next (a : α) (s : St)
  | done (v : ρ) (s : St)
  | pidx (s : St)
  | palloc (s : St)   -- `unwrap_with_msg()` on `Err(ReserveError)`: the infallible API panics with the error's message
  | pcb (s : St)      -- user code (an iterator's `next`, a predicate, a `Display` impl) panicked
  | ub (u : UB)

def M (ρ α : Type) := St → Step ρ α

@[inline] def pure {ρ α} (a : α) : M ρ α := fun s => .next a s

@[inline] def bind {ρ α β} (m : M ρ α) (f : α → M ρ β) : M ρ β := fun s =>
  match m s with
  | .next a s' => f a s'
  | .done v s' => .done v s'
  | .pidx s' => .pidx s'
  | .palloc s' => .palloc s'
  | .pcb s' => .pcb s'
  | .ub u => .ub u

/-- `return v` -/
@[inline] def ret {ρ α} (v : ρ) : M ρ α := fun s => .done v s

/-- call of another translated function: its early return is the value of the call -/
@[inline] def call {ρ ρ'} (m : M ρ' ρ') : M ρ ρ' := fun s =>
  match m s with
  | .next a s' => .next a s'
  | .done v s' => .next v s'
  | .pidx s' => .pidx s'
  | .palloc s' => .palloc s'
  | .pcb s' => .pcb s'
  | .ub u => .ub u

@[inline] def alarm {ρ α} (u : UB) : M ρ α := fun _ => .ub u

/-- body of a function the translator could not translate (tools/rs2lean.status.json says why) -/
def poisoned {ρ α} : M ρ α := alarm .badStatic

/-- `if c { x } else { y }` -/
@[inline] def ifM {ρ α} (c : Bool) (x y : M ρ α) : M ρ α := fun s => if c then x s else y s

/-- `assert!(c, …)` -/
@[inline] def assert_ {ρ} (c : Bool) : M ρ Unit := fun s => if c then .next () s else .pidx s

/-! ## `Result` and `Option` -/

inductive Rs (α : Type)
  | ok (a : α)
  | err
  deriving DecidableEq, Repr

inductive ReserveErrorT | mk
  deriving DecidableEq, Repr
def ReserveError : ReserveErrorT := .mk

@[inline] def rs_Ok {ρ α} (a : α) : M ρ (Rs α) := pure (.ok a)
@[inline] def rs_Err {ρ α ε} (_e : ε) : M ρ (Rs α) := pure .err
@[inline] def rs_Some {ρ α} (a : α) : M ρ (Option α) := pure (some a)

/-- the `?` operator inside a function returning `Result<_, ReserveError>` -/
@[inline] def try_ {α β} (r : Rs α) : M (Rs β) α := fun s =>
  match r with
  | .ok a => .next a s
  | .err => .done .err s

@[inline] def _root_.Option.rs_ok_or {ρ α} (o : Option α) (_e : ReserveErrorT) : M ρ (Rs α) :=
  pure (match o with | some a => .ok a | none => .err)

@[inline] def Rs.rs_map {ρ α β} (r : Rs α) (f : α → M ρ β) : M ρ (Rs β) :=
  match r with
  | .ok a => bind (f a) fun b => pure (.ok b)
  | .err => pure .err

/-- `Result::unwrap_with_msg()` of the infallible API: `Err(ReserveError)` panics with the error's message -/
@[inline] def Rs.rs_unwrap_with_msg {ρ α} (r : Rs α) : M ρ α := fun s =>
  match r with
  | .ok a => .next a s
  | .err => .palloc s

/-! ## `usize` -/

@[inline] def _root_.Nat.rs_checked_add {ρ} (a b : Nat) : M ρ (Option Nat) := pure (checkedAdd a b)
@[inline] def _root_.Nat.rs_max {ρ} (a b : Nat) : M ρ Nat := pure (max a b)
@[inline] def _root_.Nat.rs_min {ρ} (a b : Nat) : M ρ Nat := pure (min a b)
/-- `a + b`, `a - b`, `a * b`, `a / b` on `usize` as the source writes them: a result outside `usize` is an alarm
(Rust panics in debug builds and wraps in release builds; neither is ever intended) — never ℕ's truncation -/
@[inline] def arith_add {ρ} (a b : Nat) : M ρ Nat := fun s => if a + b < USIZE then .next (a + b) s else .ub .arith
@[inline] def arith_sub {ρ} (a b : Nat) : M ρ Nat := fun s => if b ≤ a then .next (a - b) s else .ub .arith
@[inline] def arith_mul {ρ} (a b : Nat) : M ρ Nat := fun s => if a * b < USIZE then .next (a * b) s else .ub .arith
@[inline] def arith_div {ρ} (a b : Nat) : M ρ Nat := fun s => if 0 < b then .next (a / b) s else .ub .arith
/-- `x as u8` / `as u16` / `as u32`: truncation -/
@[inline] def cast_to {ρ} (bits : Nat) (x : Nat) : M ρ Nat := pure (x % 2 ^ bits)
/-- `isize::MAX as usize` -/
def isize_MAX : Nat := 2 ^ 63 - 1

/-! ## `&str` -/

structure Str where
  b : Bytes
  deriving DecidableEq, Repr

@[inline] def Str.rs_len {ρ} (t : Str) : M ρ Nat := pure t.b.length
@[inline] def Str.rs_is_empty {ρ} (t : Str) : M ρ Bool := pure t.b.isEmpty
@[inline] def Str.rs_is_char_boundary {ρ} (t : Str) (i : Nat) : M ρ Bool := pure (isBoundary t.b i)

/-- `&'static str`: the caller's text and which one it is -/
structure SStr where
  sid : Nat
  b : Bytes
  deriving DecidableEq, Repr
instance : Coe SStr Str := ⟨fun t => ⟨t.b⟩⟩
@[inline] def SStr.rs_len {ρ} (t : SStr) : M ρ Nat := pure t.b.length

/-! ## The three buffers as values -/

/-- an owned `HeapBuffer` that is not (yet) `self`: pointer and length word -/
structure HeapBuf where
  addr : Nat
  len  : Nat
  deriving DecidableEq, Repr

structure InlineBuf where
  raw : Bytes
  deriving DecidableEq, Repr

structure StaticBuf where
  sid : Nat
  len : Nat
  deriving DecidableEq, Repr

/-- `&HeapBuffer` / `&mut HeapBuffer` obtained from `self.as_heap_buffer[_mut]()`: the same two
words as `self`, so the reference carries nothing and its methods act on the current `self` -/
inductive HeapRef | mk
inductive InlineRef | mk
inductive StaticRef | mk
/-- `&AtomicUsize` of the block `self` points at -/
inductive RcRef | mk
inductive Ord | Relaxed | Release | Acquire | AcqRel | SeqCst
export Ord (Relaxed Release Acquire AcqRel SeqCst)

/-! ## `HeapBuffer::…` constructors (`heap_buffer.rs`; hand-modelled in `Basic.lean`) -/

def allocTo {ρ} (f : Refuse → Heap → Option Nat × Heap) (len : Nat) : M ρ (Rs HeapBuf) := fun s =>
  match f s.rf s.hp with
  | (some a, hp') => .next (.ok ⟨a, len⟩) { s with hp := hp' }
  | (none, hp') => .next .err { s with hp := hp' }

def HeapBuffer.new {ρ} (t : Str) : M ρ (Rs HeapBuf) := allocTo (fun rf hp => heapNew rf hp t.b) t.b.length
def HeapBuffer.with_capacity {ρ} (c : Nat) : M ρ (Rs HeapBuf) := allocTo (fun rf hp => heapWithCapacity rf hp c) 0
def HeapBuffer.with_additional {ρ} (t : Str) (additional : Nat) : M ρ (Rs HeapBuf) :=
  allocTo (fun rf hp => heapWithAdditional rf hp t.b additional) t.b.length
def HeapBuffer.with_capacity_from {ρ} (t : Str) (c : Nat) : M ρ (Rs HeapBuf) :=
  allocTo (fun rf hp => heapWithCapacityFrom rf hp t.b c) t.b.length

def heap_buffer.amortized_growth {ρ} (len additional : Nat) : M ρ Nat := pure (Gen.amortizedGrowth len additional)

/-! ## `InlineBuffer`, `StaticBuffer` -/

def InlineBuffer.new {ρ} (t : Str) : M ρ InlineBuf := pure ⟨inlNew t.b⟩
def InlineBuffer.empty {ρ} : M ρ InlineBuf := pure ⟨inlEmpty⟩

/-- `StaticBuffer::new(text)`: refuses texts whose length does not fit below the tag byte -/
def StaticBuffer.new {ρ} (t : SStr) : M ρ (Rs StaticBuf) :=
  pure (if t.b.length > STATIC_MAX_LEN then .err else .ok ⟨t.sid, t.b.length⟩)

/-! ## `Repr`: transmutes, and reading `self` -/

def Repr.from_heap {ρ} (h : HeapBuf) : M ρ Handle := pure (.heap h.addr h.len)
def Repr.from_inline {ρ} (i : InlineBuf) : M ρ Handle := pure (.inl i.raw)
def Repr.from_static {ρ} (b : StaticBuf) : M ρ Handle := pure (.stat b.sid b.len)

def Repr.len {ρ} : M ρ Nat := fun s => .next s.self.len s
def Repr.last_byte {ρ} : M ρ Nat := fun s => .next s.self.lastByte s

def isHeap : Handle → Bool | .heap _ _ => true | _ => false
def isStatic : Handle → Bool | .stat _ _ => true | _ => false

def Repr.is_heap_buffer {ρ} : M ρ Bool := fun s => .next (isHeap s.self) s
def Repr.is_static_buffer {ρ} : M ρ Bool := fun s => .next (isStatic s.self) s

/-- `self.as_str()` -/
def Repr.as_str {ρ} : M ρ Str := fun s =>
  match textOf s.hp s.st s.self with
  | .ok t => .next ⟨t⟩ s
  | .error u => .ub u

/-- `*self = other` (no destructor runs: `Repr` has no `Drop`) -/
def Repr.assign {ρ} (other : Handle) : M ρ Unit := fun s => .next () { s with self := other }

/-- `unsafe { ptr::read(self) }`: a bitwise copy of the two words -/
def Repr.read_self {ρ} : M ρ Handle := fun s => .next s.self s

def Repr.as_heap_buffer {ρ} : M ρ HeapRef := fun s => if isHeap s.self then .next .mk s else .ub .oob
def Repr.as_heap_buffer_mut {ρ} : M ρ HeapRef := Repr.as_heap_buffer
def Repr.as_static_buffer {ρ} : M ρ StaticRef := fun s => if isStatic s.self then .next .mk s else .ub .oob
def Repr.as_static_buffer_mut {ρ} : M ρ StaticRef := Repr.as_static_buffer
def Repr.as_inline_buffer_mut {ρ} : M ρ InlineRef := fun s =>
  match s.self with | .inl _ => .next .mk s | _ => .ub .oob

/-- `ref_count_overflow(self)`: more than `isize::MAX` handles — outside the model -/
def ref_count_overflow {ρ} (_r : Handle) : M ρ Unit := alarm .rcOverflow

/-- `self.0 as *const u8` of a heap or static `self`, and a slice / `str` built from it -/
structure RawPtr where
  h : Handle
  own : Bool        -- `self as *const _ as *const u8`: the 16 bytes of the value itself, not what its first word points at
structure RawSlice where
  b : Bytes
def Repr.field_0 {ρ} : M ρ RawPtr := fun s => .next ⟨s.self, false⟩ s
/-- `self as *const _` / `self as *mut _` -/
def Repr.self_ptr {ρ} : M ρ RawPtr := fun s => .next ⟨s.self, true⟩ s
def slice.from_raw_parts {ρ} (p : RawPtr) (n : Nat) : M ρ RawSlice := fun s =>
  match p.own, p.h with
  | false, .heap a _ => (match textOf s.hp s.st (.heap a n) with | .ok t => .next ⟨t⟩ s | .error u => .ub u)
  | false, .stat i _ => (match textOf s.hp s.st (.stat i n) with | .ok t => .next ⟨t⟩ s | .error u => .ub u)
  | false, .inl _ => .ub .oob           -- the first word of an inline value is text, not a pointer
  | true, .inl raw => if n ≤ raw.length then .next ⟨raw.take n⟩ s else .ub .oob
  | true, _ => .ub .oob                 -- the pointer bits of a heap / static value are not text
/-- what `str::from_utf8_unchecked` is applied to: a slice read through a raw pointer, or the caller's `&[u8]` -/
class HasBytes (β : Type) where
  bytes : β → Bytes
instance : HasBytes RawSlice := ⟨fun sl => sl.b⟩
def str.from_utf8_unchecked {ρ β} [HasBytes β] (sl : β) : M ρ Str := pure ⟨HasBytes.bytes sl⟩

/-! ## `&HeapBuffer` methods: they read the block `self` points at -/

/-- run `f` on the address, handle-local length and block of a heap `self` -/
def onHeap {ρ α} (f : St → Nat → Nat → Block → Step ρ α) : M ρ α := fun s =>
  match s.self with
  | .heap a l => match s.hp.get? a with
    | some b => f s a l b
    | none => .ub .useAfterFree
  | _ => .ub .oob

def HeapRef.rs_is_unique {ρ} (_ : HeapRef) : M ρ Bool := onHeap fun s _ _ b => .next (decide (b.rc = 1)) s
def HeapRef.rs_capacity {ρ} (_ : HeapRef) : M ρ Nat := onHeap fun s _ _ b => .next b.cap s
def HeapRef.rs_len {ρ} (_ : HeapRef) : M ρ Nat := onHeap fun s _ l _ => .next l s
/-- 64-bit: the length is never stored in the block -/
def HeapRef.rs_is_len_on_heap {ρ} (_ : HeapRef) : M ρ Bool := pure false
def HeapRef.rs_as_str {ρ} (_ : HeapRef) : M ρ Str :=
  onHeap fun s _ l b => if l ≤ b.cap then .next ⟨b.data.take l⟩ s else .ub .oob
def HeapRef.rs_reference_count {ρ} (_ : HeapRef) : M ρ RcRef := onHeap fun s _ _ _ => .next .mk s

def HeapRef.rs_realloc {ρ} (_ : HeapRef) (newCap : Nat) : M ρ (Rs Unit) := fun s =>
  match s.self with
  | .heap a l => match s.hp.realloc s.rf a newCap with
    | .moved hp' a' => .next (.ok ()) { s with hp := hp', self := .heap a' l }
    | .refused hp' => .next .err { s with hp := hp' }
    | .ub u => .ub u
  | _ => .ub .oob

/-- `HeapBuffer::set_len` on `self` seen as a heap buffer (`TextLen::new` must accept) -/
def HeapRef.rs_set_len {ρ} (_ : HeapRef) (n : Nat) : M ρ Unit := fun s =>
  match s.self with
  | .heap a _ => if n ≤ MAX_LEN then .next () { s with self := .heap a n } else .ub .lenOverflow
  | _ => .ub .oob

/-- `fetch_sub(1, order)`: previous value -/
def RcRef.rs_fetch_sub {ρ} (_ : RcRef) (_n : Nat) (_o : Ord) : M ρ Nat := onHeap fun s a _ b =>
  if b.rc = 0 then .ub .rcUnderflow
  else .next b.rc { s with hp := s.hp.setBlock a { b with rc := b.rc - 1 } }

/-- `fetch_add(1, order)`: previous value -/
def RcRef.rs_fetch_add {ρ} (_ : RcRef) (_n : Nat) (_o : Ord) : M ρ Nat := onHeap fun s a _ b =>
  .next b.rc { s with hp := s.hp.setBlock a { b with rc := b.rc + 1 } }

def fence {ρ} (_o : Ord) : M ρ Unit := pure ()

/-- `HeapBuffer::dealloc`: the count must have reached 0; the layout is recomputed from the header -/
def HeapRef.rs_dealloc {ρ} (_ : HeapRef) : M ρ Unit := onHeap fun s a _ b =>
  if b.rc ≠ 0 then .ub .doubleFree
  else if b.size = HEADER + b.cap then
    .next () { s with hp := { s.hp with slots := s.hp.slots.set a .freed, log := .free b.size :: s.hp.log } }
  else .ub .badLayout

/-! ## `&mut StaticBuffer`, `&mut InlineBuffer` -/

def StaticRef.rs_len {ρ} (_ : StaticRef) : M ρ Nat := fun s =>
  match s.self with | .stat _ l => .next l s | _ => .ub .oob

def StaticRef.rs_set_len {ρ} (_ : StaticRef) (n : Nat) : M ρ Unit := fun s =>
  match s.self with
  | .stat sid _ => if n ≤ STATIC_MAX_LEN then .next () { s with self := .stat sid n } else .ub .lenOverflow
  | _ => .ub .oob

def InlineRef.rs_set_len {ρ} (_ : InlineRef) (n : Nat) : M ρ Unit := fun s =>
  match s.self with
  | .inl raw => if n ≤ MAX_INLINE then .next () { s with self := .inl (inlSetLen raw n) } else .ub .oob
  | _ => .ub .oob

/-! ## Raw access to the storage `self` owns (`as_slice_mut`, `as_str_mut`, `ptr::copy`, `chars()`)

The checks are in the order of the Rust code (the slice index panics before anything is written); the hand
model raises its alarms in a different order (`Heap.write` checks liveness, uniqueness, then bounds), so the
ties of the functions that use these primitives are stated for executions in which the hand model raises no
alarm — which is every execution from a well-formed world (`step_post`). -/

structure SliceMut where
  off : Nat
  len : Nat
structure MutPtr where
  off : Nat
structure ConstPtr where
  b : Bytes
/-- a `char`: its UTF-8 bytes and `len_utf8()` (the width its lead byte announces) -/
structure Chr where
  b : Bytes
  w : Nat
  deriving DecidableEq, Repr
structure Chars where
  b : Bytes

/-- the bytes of the storage `self` may write to: the block's `capacity` bytes, or the 16 raw bytes -/
def storageOf (hp : Heap) : Handle → Except UB Bytes
  | .inl raw => .ok raw
  | .heap a _ => match hp.get? a with | some b => .ok b.data | none => .error .useAfterFree
  | .stat _ _ => .error .writeStatic

/-- `self.as_slice_mut()`: the capacity-long slice -/
def Repr.as_slice_mut {ρ} : M ρ SliceMut := fun s =>
  match s.self with
  | .inl _ => .next ⟨0, MAX_INLINE⟩ s
  | .heap a _ => (match s.hp.get? a with | some b => .next ⟨0, b.cap⟩ s | none => .ub .useAfterFree)
  | .stat _ _ => .ub .writeStatic

/-- `self.as_str_mut()`: the first `len()` bytes of `as_slice_mut()` -/
def Repr.as_str_mut {ρ} : M ρ SliceMut := fun s =>
  match s.self with
  | .inl _ => .next ⟨0, s.self.len⟩ s
  | .heap a l => (match s.hp.get? a with | some _ => .next ⟨0, l⟩ s | none => .ub .useAfterFree)
  | .stat _ _ => .ub .writeStatic

/-- `&mut slice[a..b]` (panics when out of range) -/
def SliceMut.rs_index_range {ρ} (sl : SliceMut) (a b : Nat) : M ρ SliceMut := fun s =>
  if a ≤ b ∧ b ≤ sl.len then .next ⟨sl.off + a, b - a⟩ s else .ub .oob
/-- `&mut str[a..]` -/
def SliceMut.rs_index_from {ρ} (sl : SliceMut) (a : Nat) : M ρ SliceMut := fun s =>
  if a ≤ sl.len then .next ⟨sl.off + a, sl.len - a⟩ s else .ub .oob
def SliceMut.rs_len {ρ} (sl : SliceMut) : M ρ Nat := pure sl.len
def SliceMut.rs_as_mut_ptr {ρ} (sl : SliceMut) : M ρ MutPtr := pure ⟨sl.off⟩
def MutPtr.rs_add {ρ} (p : MutPtr) (n : Nat) : M ρ MutPtr := pure ⟨p.off + n⟩
def Str.rs_as_bytes {ρ} (t : Str) : M ρ Str := pure t
def Str.rs_as_ptr {ρ} (t : Str) : M ρ ConstPtr := pure ⟨t.b⟩

/-- write `bytes` at `off` through the storage `self` owns -/
def writeSelf {ρ} (off : Nat) (bytes : Bytes) : M ρ Unit := fun s =>
  match writeBytes s.hp s.self off bytes with
  | .ok (hp', r') => .next () { s with hp := hp', self := r' }
  | .error u => .ub u

/-- `dst.copy_from_slice(src)` (panics when the lengths differ) -/
def SliceMut.rs_copy_from_slice {ρ} (sl : SliceMut) (src : Str) : M ρ Unit := fun s =>
  if src.b.length = sl.len then writeSelf sl.off src.b s else .ub .oob

/-- `ptr::copy(src, dst, n)` inside the storage of `self` (memmove) -/
def ptr.copy {ρ} (src dst : MutPtr) (n : Nat) : M ρ Unit := fun s =>
  match storageOf s.hp s.self with
  | .error u => .ub u
  | .ok stor => if src.off + n ≤ stor.length then writeSelf dst.off ((stor.drop src.off).take n) s else .ub .oob

/-- `ptr::copy_nonoverlapping(src, dst, n)` from a `&str` into the storage of `self` -/
def copyToSelf {ρ} (src : ConstPtr) (dst : MutPtr) (n : Nat) : M ρ Unit := fun s =>
  if n ≤ src.b.length then writeSelf dst.off (src.b.take n) s else .ub .oob

/-- `str.chars()` on a mutable sub-slice of `self`, and on a `&str` -/
def SliceMut.rs_chars {ρ} (sl : SliceMut) : M ρ Chars := fun s =>
  match storageOf s.hp s.self with
  | .error u => .ub u
  | .ok stor => if sl.off + sl.len ≤ stor.length then .next ⟨(stor.drop sl.off).take sl.len⟩ s else .ub .oob
def Str.rs_chars {ρ} (t : Str) : M ρ Chars := pure ⟨t.b⟩
/-- `chars().next()`: the first character, by the width its lead byte announces -/
def Chars.rs_next {ρ} (c : Chars) : M ρ (Option Chr) :=
  pure (match c.b with | [] => none | b :: _ => some ⟨c.b.take (charWidth b), charWidth b⟩)
/-- `chars().next_back()`: the last character, found by skipping continuation bytes backwards -/
def Chars.rs_next_back {ρ} (c : Chars) : M ρ (Option Chr) :=
  pure (if c.b.isEmpty then none else some ⟨c.b.drop (c.b.length - (trailing c.b + 1)), trailing c.b + 1⟩)
def _root_.Option.rs_unwrap_unchecked {ρ α} (o : Option α) : M ρ α := fun s =>
  match o with | some a => .next a s | none => .ub .oob
def Chr.rs_len_utf8 {ρ} (c : Chr) : M ρ Nat := pure c.w

/-- `[x; n]`, the scratch buffer handed to `encode_utf8` -/
structure ArrayBuf where
  n : Nat
  b : Bytes
def array_repeat {ρ} (x n : Nat) : M ρ ArrayBuf := pure ⟨n, List.replicate n (UInt8.ofNat x)⟩
/-- `ch.encode_utf8(&mut buf)`: the bytes of the character, as a `&str` (the buffer must hold them) -/
class EncodeBuf (β : Type) where
  enc : {ρ : Type} → Chr → β → M ρ Str
instance : EncodeBuf ArrayBuf := ⟨fun c buf s => if c.b.length ≤ buf.n then .next ⟨c.b⟩ s else .ub .oob⟩
def Chr.rs_encode_utf8 {ρ β} [EncodeBuf β] (c : Chr) (buf : β) : M ρ Str := EncodeBuf.enc c buf

/-- the tuple-struct constructor `LeanString(repr)`: `repr(transparent)` -/
def LeanString {ρ} (r : Handle) : M ρ Handle := pure r
/-- `other.0.method(..)`: run a `&self` method on the two words of *another* `LeanString` (the heap is shared,
`self` is put back afterwards) -/
def onRepr {ρ α} (other : Handle) (m : M ρ α) : M ρ α := fun s =>
  match m { s with self := other } with
  | .next a s' => .next a { s' with self := s.self }
  | .done v s' => .done v { s' with self := s.self }
  | .pidx s' => .pidx { s' with self := s.self }
  | .palloc s' => .palloc { s' with self := s.self }
  | .pcb s' => .pcb { s' with self := s.self }
  | .ub u => .ub u

/-- Rust's unwinding for an owned local: when the rest of the function panics (`assert!`, `unwrap_with_msg`, user
code), the local's destructor `d` runs before the panic propagates -/
def dropOnUnwind {ρ α} (d : M Unit Unit) (m : M ρ α) : M ρ α := fun s =>
  let after (s' : St) (k : St → Step ρ α) : Step ρ α :=
    match d s' with
    | .next _ s'' | .done _ s'' => k s''
    | .pidx s'' => .pidx s'' | .palloc s'' => .palloc s'' | .pcb s'' => .pcb s''
    | .ub u => .ub u
  match m s with
  | .pidx s' => after s' .pidx
  | .palloc s' => after s' .palloc
  | .pcb s' => after s' .pcb
  | other => other

/-! ## Iterators handed in by the caller: user code as data

An `IntoIterator<Item = char>` / `<Item = &str>` (or `String`, `Box<str>`, `Cow<str>`: all read as `&str`) is its
size hint and the items it yields; `none` = `next()` panics there. -/

structure CharIter where
  hint : Nat
  items : List (Option Chr)
structure StrIter where
  items : List (Option Str)

/-- `for x in items { body }`: a panicking `next()` unwinds through the loop -/
def forLoop {ρ ι} (body : ι → M ρ Unit) : List (Option ι) → M ρ Unit
  | [] => pure ()
  | none :: _ => fun s => .pcb s
  | some x :: rest => bind (body x) fun _ => forLoop body rest

def CharIter.rs_into_iter {ρ} (it : CharIter) : M ρ CharIter := pure it
def CharIter.rs_copied {ρ} (it : CharIter) : M ρ CharIter := pure it
def CharIter.rs_size_hint {ρ} (it : CharIter) : M ρ (Nat × Option Nat) := pure (it.hint, none)
def CharIter.rs_for_each {ρ} (it : CharIter) (body : Chr → M ρ Unit) : M ρ Unit := forLoop body it.items
def StrIter.rs_into_iter {ρ} (it : StrIter) : M ρ StrIter := pure it
def StrIter.rs_for_each {ρ} (it : StrIter) (body : Str → M ρ Unit) : M ρ Unit := forLoop body it.items

/-! ## Byte and code-unit slices handed in by the caller, and std's decoders (transcribed in `LSModel/Decode.lean`) -/

structure ByteSlice where
  b : Bytes
instance : HasBytes ByteSlice := ⟨fun sl => sl.b⟩
structure U16Slice where
  u : List Nat
/-- one item of `<[u8]>::utf8_chunks()` -/
structure Chunk where
  valid : Bytes
  invalid : Bytes
structure ChunkIter where
  items : List Chunk
/-- `char::decode_utf16(..)`: items are `Ok(char)` or `Err(DecodeUtf16Error)` (an unpaired surrogate) -/
structure Utf16Iter where
  items : List (Rs Chr)
  hint : Nat           -- lower bound of `DecodeUtf16::size_hint` on a fresh decoder
inductive Utf8ErrorT | mk
inductive FromUtf16ErrorT | mk
def FromUtf16Error : FromUtf16ErrorT := .mk

def ByteSlice.rs_len {ρ} (x : ByteSlice) : M ρ Nat := pure x.b.length
def ByteSlice.rs_is_empty {ρ} (x : ByteSlice) : M ρ Bool := pure x.b.isEmpty
def U16Slice.rs_len {ρ} (x : U16Slice) : M ρ Nat := pure x.u.length
/-- `str::from_utf8(buf)`: `Ok` exactly on valid UTF-8 (`validUtf8`, proved equivalent to `Valid` in DecodeLemmas) -/
def str.from_utf8 {ρ} (x : ByteSlice) : M ρ (Rs Str) := pure (if validUtf8 x.b then .ok ⟨x.b⟩ else .err)
def ByteSlice.rs_utf8_chunks {ρ} (x : ByteSlice) : M ρ ChunkIter := pure ⟨(utf8Chunks x.b).map fun (v, i) => ⟨v, i⟩⟩
def ChunkIter.rs_for_each {ρ} (it : ChunkIter) (body : Chunk → M ρ Unit) : M ρ Unit := forLoop body (it.items.map some)
def Chunk.rs_valid {ρ} (c : Chunk) : M ρ Str := pure ⟨c.valid⟩
def Chunk.rs_invalid {ρ} (c : Chunk) : M ρ ByteSlice := pure ⟨c.invalid⟩
def char.REPLACEMENT_CHARACTER : Chr := ⟨replacement, 3⟩
def U16Slice.rs_iter {ρ} (x : U16Slice) : M ρ U16Slice := pure x
def U16Slice.rs_copied {ρ} (x : U16Slice) : M ρ U16Slice := pure x
def char.decode_utf16 {ρ} (x : U16Slice) : M ρ Utf16Iter :=
  pure ⟨(decodeUtf16 x.u).map (fun o => match o with | some b => .ok ⟨b, b.length⟩ | none => .err), (x.u.length + 1) / 2⟩
def Utf16Iter.rs_for_each {ρ} (it : Utf16Iter) (body : Rs Chr → M ρ Unit) : M ρ Unit := forLoop body (it.items.map some)
/-- `.map(|c| …)` with a closure that captures nothing: applied to the items in order -/
def mapItems {ρ} (f : Rs Chr → M ρ Chr) : List (Rs Chr) → M ρ (List (Option Chr))
  | [] => pure []
  | x :: xs => bind (f x) fun c => bind (mapItems f xs) fun cs => pure (some c :: cs)
def Utf16Iter.rs_map {ρ} (it : Utf16Iter) (f : Rs Chr → M ρ Chr) : M ρ CharIter :=
  bind (mapItems f it.items) fun cs => pure ⟨it.hint, cs⟩
def Rs.rs_unwrap_or {ρ α} (r : Rs α) (d : α) : M ρ α := pure (match r with | .ok a => a | .err => d)

/-! ## One level down: what `heap_buffer.rs` itself is written in

The functions of `HeapBuffer` are the primitives of everything above.  Their own bodies are translated too
(`HeapBuffer.new_body`, `…realloc_body`, `…dealloc_body`, …) over the raw allocator interface below, and proved equal
to those primitives (LSProofs/Gen/HeapBuf.lean).  A raw allocation is a block whose header has not been written yet
(`rc = 0`, `cap` = the bytes behind the header); `ptr::write(.., Header {..})` fills in count and capacity. -/

structure TextLenV where
  w : Nat            -- the length word with the marker byte on top
structure CapV where
  c : Nat
structure LayoutV where
  size : Nat
/-- a `*mut u8` into (or null instead of) an allocation: block address and offset from its start -/
structure RawPtrV where
  addr : Option Nat
  off : Nat
structure NonNullV where
  addr : Nat         -- points at the text (offset `HEADER`) of block `addr`
structure AtomicV where
  n : Nat
structure HeaderV where
  count : AtomicV
  capacity : CapV
inductive HeaderRef | mk

def TextLen {ρ} (w : Nat) : M ρ TextLenV := pure ⟨w⟩
def Capacity {ρ} (c : Nat) : M ρ CapV := pure ⟨c⟩
def TextLen.TAG : Nat := Gen.heapTag
def _root_.Nat.rs_to_le {ρ} (n : Nat) : M ρ Nat := pure n
def _root_.Nat.rs_wrapping_add {ρ} (a b : Nat) : M ρ Nat := pure ((a + b) % USIZE)
def TextLenV.rs_get_0 {ρ} (t : TextLenV) : M ρ Nat := pure t.w
def CapV.rs_get_0 {ρ} (c : CapV) : M ρ Nat := pure c.c
def CapV.rs_as_usize {ρ} (c : CapV) : M ρ Nat := pure c.c
def TextLenV.rs_is_heap {ρ} (_t : TextLenV) : M ρ Bool := pure false
def is_len_heap_layout {ρ} (_c : CapV) : M ρ Bool := pure false
def cold_path {ρ} : M ρ Unit := pure ()
def size_of_usize : Nat := 8
def size_of_Header : Nat := HEADER
def HeapBuffer.header_offset {ρ} : M ρ Nat := pure HEADER
def HeapBuffer.align {ρ} : M ρ Nat := pure 8
def AtomicUsize.new {ρ} (n : Nat) : M ρ AtomicV := pure ⟨n⟩
def Header.mk {ρ} (count : AtomicV) (capacity : CapV) : M ρ HeaderV := pure ⟨count, capacity⟩
/-- `HeapBuffer { ptr, len }`: the two words; the handle-local length is the word without its marker -/
def HeapBuffer.mk {ρ} (ptr : NonNullV) (len : TextLenV) : M ρ HeapBuf := pure ⟨ptr.addr, len.w ^^^ Gen.heapTag⟩

/-- `layout_from_capacity` (checked additions and `Layout::from_size_align`, closures in the source): `HEADER + cap`
bytes, refused when that exceeds what a `Layout` may describe -/
def HeapBuffer.layout_from_capacity {ρ} (c : CapV) : M ρ (Rs LayoutV) :=
  pure (if HEADER + c.c ≤ 2 ^ 63 - 8 then .ok ⟨HEADER + c.c⟩ else .err)

/-- `alloc(layout)`: the allocator may refuse (null); a fresh block has no header yet -/
def alloc {ρ} (l : LayoutV) : M ρ RawPtrV := fun s =>
  if s.rf s.hp.reqs l.size then
    .next ⟨none, 0⟩ { s with hp := { s.hp with reqs := s.hp.reqs + 1, log := .allocX l.size :: s.hp.log } }
  else
    .next ⟨some s.hp.slots.length, 0⟩
      { s with hp := { slots := s.hp.slots ++ [.live { rc := 0, cap := l.size - HEADER, size := l.size,
                                                         data := List.replicate (l.size - HEADER) JUNK }],
                       reqs := s.hp.reqs + 1, log := .alloc l.size :: s.hp.log } }

def RawPtrV.rs_is_null {ρ} (p : RawPtrV) : M ρ Bool := pure p.addr.isNone
def RawPtrV.rs_add {ρ} (p : RawPtrV) (n : Nat) : M ρ RawPtrV := pure ⟨p.addr, p.off + n⟩
def RawPtrV.rs_sub {ρ} (p : RawPtrV) (n : Nat) : M ρ RawPtrV := fun s => if n ≤ p.off then .next ⟨p.addr, p.off - n⟩ s else .ub .oob
def RawPtrV.rs_cast {ρ} (p : RawPtrV) : M ρ RawPtrV := pure p
def RawPtrV.rs_as_ptr {ρ} (p : RawPtrV) : M ρ RawPtrV := pure p
def NonNullV.rs_as_ptr {ρ} (p : NonNullV) : M ρ RawPtrV := pure ⟨some p.addr, HEADER⟩
def NonNull.new_unchecked {ρ} (p : RawPtrV) : M ρ NonNullV := fun s =>
  match p.addr with
  | some a => if p.off = HEADER then .next ⟨a⟩ s else .ub .oob
  | none => .ub .oob

/-- what `ptr::write` may store through a raw pointer: a `Header` at the start of an allocation, or — only where the
length lives on the heap, i.e. never on a 64-bit target — a `usize` in front of it -/
class WriteVal (τ : Type) where
  wr : {ρ : Type} → RawPtrV → τ → M ρ Unit
def ptr.write {ρ τ} [WriteVal τ] (p : RawPtrV) (v : τ) : M ρ Unit := WriteVal.wr p v
instance : WriteVal Nat := ⟨fun _ _ => alarm .oob⟩

/-- `ptr::write(p.cast(), Header { count, capacity })` at the start of an allocation -/
def writeHeader {ρ} (p : RawPtrV) (h : HeaderV) : M ρ Unit := fun s =>
  match p.addr with
  | none => .ub .oob
  | some a =>
    if p.off ≠ 0 then .ub .oob else
    match s.hp.get? a with
    | none => .ub .useAfterFree
    | some b => .next () { s with hp := s.hp.setBlock a { b with rc := h.count.n, cap := h.capacity.c } }

instance : WriteVal HeaderV := ⟨fun p h => writeHeader p h⟩

/-- `ptr::copy_nonoverlapping(text.as_ptr(), ptr.as_ptr(), n)` into the text area of a block just allocated -/
def ptr.copy_to_block {ρ} (src : ConstPtr) (dst : RawPtrV) (n : Nat) : M ρ Unit := fun s =>
  match dst.addr with
  | none => .ub .oob
  | some a =>
    if dst.off ≠ HEADER ∨ src.b.length < n then .ub .oob else
    match s.hp.get? a with
    | none => .ub .useAfterFree
    | some b => if n ≤ b.data.length then .next () { s with hp := s.hp.setBlock a { b with data := writeAt b.data 0 (src.b.take n) } }
                else .ub .oob

/-- `realloc(p, layout, new_size)`: the layout must be the one the block was allocated with; the allocator may
refuse (null, the old block intact); otherwise the block *moves* (as the shadow heap's does), header bytes and text
carried over up to the smaller size -/
def realloc {ρ} (p : RawPtrV) (l : LayoutV) (newSize : Nat) : M ρ RawPtrV := fun s =>
  match p.addr with
  | none => .ub .oob
  | some a =>
    if p.off ≠ 0 then .ub .oob else
    match s.hp.get? a with
    | none => .ub .useAfterFree
    | some b =>
      if b.size ≠ l.size then .ub .badLayout
      else if s.rf s.hp.reqs newSize then
        .next ⟨none, 0⟩ { s with hp := { s.hp with reqs := s.hp.reqs + 1, log := .reallocX b.size newSize :: s.hp.log } }
      else
        let nb : Block := { rc := b.rc, cap := b.cap, size := newSize,
                            data := padTo (newSize - HEADER) (b.data.take (min b.data.length (newSize - HEADER))) }
        .next ⟨some s.hp.slots.length, 0⟩
          { s with hp := { slots := (s.hp.slots.set a .freed) ++ [.live nb], reqs := s.hp.reqs + 1,
                           log := .realloc b.size newSize :: s.hp.log } }

/-- `dealloc(p, layout)` -/
def dealloc {ρ} (p : RawPtrV) (l : LayoutV) : M ρ Unit := fun s =>
  match p.addr with
  | none => .ub .oob
  | some a =>
    if p.off ≠ 0 then .ub .oob else
    match s.hp.slots[a]? with
    | some (.live b) =>
      if b.size = l.size then .next () { s with hp := { s.hp with slots := s.hp.slots.set a .freed, log := .free b.size :: s.hp.log } }
      else .ub .badLayout
    | some .freed => .ub .doubleFree
    | none => .ub .useAfterFree

/-- the destinations `ptr::copy_nonoverlapping` is used with: the storage of `self` (`MutPtr`, an offset) or the text
area of another block (`RawPtrV`) -/
class CopyDst (δ : Type) where
  cp : {ρ : Type} → ConstPtr → δ → Nat → M ρ Unit
instance : CopyDst RawPtrV := ⟨fun src dst n => ptr.copy_to_block src dst n⟩
instance : CopyDst MutPtr := ⟨fun src dst n => copyToSelf src dst n⟩
def ptr.copy_nonoverlapping {ρ δ} [CopyDst δ] (src : ConstPtr) (dst : δ) (n : Nat) : M ρ Unit := CopyDst.cp src dst n

/-! ### callee names of `heap_buffer.rs` in plain form: the primitives their translated bodies are proved equal to -/
def TextLen.new {ρ} (n : Nat) : M ρ (Rs TextLenV) := pure (if n > MAX_LEN then .err else .ok ⟨n ||| Gen.heapTag⟩)
def Capacity.new {ρ} (c : Nat) : M ρ (Rs CapV) := pure (if c > MAX_LEN then .err else .ok ⟨c⟩)
def amortized_growth {ρ} (len additional : Nat) : M ρ Nat := pure (Gen.amortizedGrowth len additional)
/-- `allocate_ptr(capacity)`: layout, `alloc`, header `{count: 1, capacity}`; the text area is uninitialised -/
def HeapBuffer.allocate_ptr {ρ} (c : CapV) : M ρ (Rs NonNullV) := fun s =>
  if HEADER + c.c ≤ 2 ^ 63 - 8 then
    match s.hp.allocate s.rf c.c [] with
    | (some a, hp') => .next (.ok ⟨a⟩) { s with hp := hp' }
    | (none, hp') => .next .err { s with hp := hp' }
  else .next .err s
def HeapBuffer.allocation {ρ} : M ρ RawPtrV := fun s => match s.self with | .heap a _ => .next ⟨some a, 0⟩ s | _ => .ub .oob
def hint.unreachable_unchecked {ρ α} : M ρ α := alarm .badLayout
def NonNullV.rs_sub {ρ} (_p : NonNullV) (_n : Nat) : M ρ RawPtrV := alarm .oob     -- only with the length on the heap
def HeapBuffer.as_str {ρ} : M ρ Str := HeapRef.rs_as_str .mk
def HeapBuf.rs_get_ptr {ρ} (b : HeapBuf) : M ρ NonNullV := pure ⟨b.addr⟩
def HeapBuf.rs_set_len {ρ} (_b : HeapBuf) (_n : Nat) : M ρ Unit := alarm .oob       -- only across the 32-bit layouts
def HeapBuffer.dealloc {ρ} : M ρ Unit := HeapRef.rs_dealloc .mk
def HeapBuffer.assign {ρ} (b : HeapBuf) : M ρ Unit := fun s => .next () { s with self := .heap b.addr b.len }
def HeapBuffer.is_unique {ρ} : M ρ Bool := HeapRef.rs_is_unique .mk

/-! ### `&self` / `&mut self` of a `HeapBuffer` method: the two words of a heap `self` -/
def HeapBuffer.get_ptr {ρ} : M ρ NonNullV := fun s => match s.self with | .heap a _ => .next ⟨a⟩ s | _ => .ub .oob
def HeapBuffer.get_len {ρ} : M ρ TextLenV := fun s => match s.self with | .heap _ l => .next ⟨l ||| Gen.heapTag⟩ s | _ => .ub .oob
def HeapBuffer.set_ptr {ρ} (p : NonNullV) : M ρ Unit := fun s =>
  match s.self with | .heap _ l => .next () { s with self := .heap p.addr l } | _ => .ub .oob
def HeapBuffer.set_len_field {ρ} (t : TextLenV) : M ρ Unit := fun s =>
  match s.self with | .heap a _ => .next () { s with self := .heap a (t.w ^^^ Gen.heapTag) } | _ => .ub .oob
/-- `self.header()`: a reference to the header of the block `self` points at -/
def HeapBuffer.header {ρ} : M ρ HeaderRef := onHeap fun s _ _ _ => .next .mk s
def HeaderRef.rs_get_capacity {ρ} (_ : HeaderRef) : M ρ CapV := onHeap fun s _ _ b => .next ⟨b.cap⟩ s
def HeaderRef.rs_get_count {ρ} (_ : HeaderRef) : M ρ RcRef := onHeap fun s _ _ _ => .next .mk s
def RcRef.rs_load {ρ} (_ : RcRef) (_o : Ord) : M ρ Nat := onHeap fun s _ _ b => .next b.rc s

/-! ## Byte level: `inline_buffer.rs`, `static_buffer.rs`, and `Repr::len` / `as_bytes` / `as_slice_mut`

A local `[u8; N]` is a value (`ArrayBuf`); `buffer[i] = v` rebinds it (out of range: the index panic);
`ptr::copy_nonoverlapping(src, buffer.as_mut_ptr(), n)` rebinds it too.  The second machine word of a `Repr` is read as
its eight little-endian bytes: of an inline value the raw bytes 8..16, of a heap / static value the length word with
its marker on top. -/

def LastByte.MASK_1100_0000 : Nat := Gen.mask1100
def LastByte.Length00 : Nat := Gen.inlineEmptyTag
def StaticBuffer.MAX_LENGTH : Nat := STATIC_MAX_LEN
def StaticBuffer.TAG : Nat := Gen.staticTag

def ArrayBuf.rs_index_set {ρ} (a : ArrayBuf) (i v : Nat) : M ρ ArrayBuf := fun s =>
  if v ≥ 256 then .ub .arith
  else if i < a.b.length then .next ⟨a.n, a.b.set i (UInt8.ofNat v)⟩ s else .pidx s
/-- `ptr::copy_nonoverlapping(src, buffer.as_mut_ptr(), n)` into a local array -/
def ptr.copy_nonoverlapping_local {ρ} (src : ConstPtr) (dst : ArrayBuf) (n : Nat) : M ρ ArrayBuf := fun s =>
  if n ≤ src.b.length ∧ n ≤ dst.b.length then .next ⟨dst.n, src.b.take n ++ dst.b.drop n⟩ s else .ub .oob
/-- the tuple-struct constructor `InlineBuffer(buffer)` -/
def InlineBuffer {ρ} (a : ArrayBuf) : M ρ InlineBuf := fun s => if a.b.length = MAX_INLINE then .next ⟨a.b⟩ s else .ub .oob
/-- `self.0[i] = v` of an `&mut InlineBuffer` -/
def InlineBuffer.set_byte {ρ} (i v : Nat) : M ρ Unit := fun s =>
  match s.self with
  | .inl raw => if v ≥ 256 then .ub .arith
                else if i < raw.length then .next () { s with self := .inl (raw.set i (UInt8.ofNat v)) } else .pidx s
  | _ => .ub .oob
def _root_.Nat.rs_wrapping_sub {ρ} (a b : Nat) : M ρ Nat := pure (wrappingSub a b)

/-- `&'static str` as a pointer, and `StaticBuffer { ptr, len }` (the handle-local length is the word without its marker) -/
structure StaticPtr where
  sid : Nat
def SStr.rs_as_ptr {ρ} (t : SStr) : M ρ StaticPtr := pure ⟨t.sid⟩
def ptr.NonNull.new_unchecked {ρ} (p : StaticPtr) : M ρ StaticPtr := pure p
def StaticBuffer.mk {ρ} (p : StaticPtr) (len : Nat) : M ρ StaticBuf := pure ⟨p.sid, len ^^^ Gen.staticTag⟩
def StaticBuffer.get_len {ρ} : M ρ Nat := fun s => match s.self with | .stat _ l => .next (l ||| Gen.staticTag) s | _ => .ub .oob
def StaticBuffer.set_len {ρ} (w : Nat) : M ρ Unit := fun s =>
  match s.self with | .stat i _ => .next () { s with self := .stat i (w ^^^ Gen.staticTag) } | _ => .ub .oob

/-- eight little-endian bytes of a word -/
def leBytes8 (w : Nat) : Bytes :=
  [UInt8.ofNat (w % 256), UInt8.ofNat (w / 256 % 256), UInt8.ofNat (w / 256 ^ 2 % 256), UInt8.ofNat (w / 256 ^ 3 % 256),
   UInt8.ofNat (w / 256 ^ 4 % 256), UInt8.ofNat (w / 256 ^ 5 % 256), UInt8.ofNat (w / 256 ^ 6 % 256), UInt8.ofNat (w / 256 ^ 7 % 256)]
def fromLe8 : Bytes → Option Nat
  | [b0, b1, b2, b3, b4, b5, b6, b7] =>
    some (b0.toNat + 256 * b1.toNat + 256 ^ 2 * b2.toNat + 256 ^ 3 * b3.toNat + 256 ^ 4 * b4.toNat + 256 ^ 5 * b5.toNat
          + 256 ^ 6 * b6.toNat + 256 ^ 7 * b7.toNat)
  | _ => none
def _root_.Nat.rs_to_ne_bytes {ρ} (w : Nat) : M ρ ArrayBuf := pure ⟨8, leBytes8 w⟩      -- x86-64: native = little endian
def usize.from_le_bytes {ρ} (a : ArrayBuf) : M ρ Nat := fun s => match fromLe8 a.b with | some w => .next w s | none => .ub .oob
def usize.from_ne_bytes {ρ} (a : ArrayBuf) : M ρ Nat := usize.from_le_bytes a

/-- the machine words of a `Repr` seen through `self as *const _ as *const usize` -/
structure WordPtr where
  h : Handle
  idx : Nat
def RawPtr.rs_cast_usize {ρ} (p : RawPtr) : M ρ WordPtr := fun s => if p.own then .next ⟨p.h, 0⟩ s else .ub .oob
def WordPtr.rs_add {ρ} (p : WordPtr) (n : Nat) : M ρ WordPtr := fun s => if p.idx + n ≤ 2 then .next ⟨p.h, p.idx + n⟩ s else .ub .oob
/-- `*(tail as *const [u8; 8])`: only the second word is readable as data for every kind -/
def WordPtr.rs_cast_bytes8 {ρ} (p : WordPtr) : M ρ ArrayBuf := fun s =>
  match p.idx, p.h with
  | 1, .inl raw => if raw.length = MAX_INLINE then .next ⟨8, raw.drop 8⟩ s else .ub .oob
  | 1, .heap _ l => .next ⟨8, leBytes8 (l ||| Gen.heapTag)⟩ s
  | 1, .stat _ l => .next ⟨8, leBytes8 (l ||| Gen.staticTag)⟩ s
  | 0, .inl raw => if raw.length = MAX_INLINE then .next ⟨8, raw.take 8⟩ s else .ub .oob
  | _, _ => .ub .oob

/-- `self.2 as u8`: the `LastByte` field -/
def Repr.field_2 {ρ} : M ρ Nat := Repr.last_byte
def Repr.is_empty {ρ} : M ρ Bool := fun s => .next (decide (s.self.len = 0)) s
/-- `self.as_bytes()` -/
def Repr.as_bytes {ρ} : M ρ RawSlice := fun s =>
  match textOf s.hp s.st s.self with
  | .ok t => .next ⟨t⟩ s
  | .error u => .ub u
/-- `slice::from_raw_parts_mut(ptr, cap)` over the storage `self` owns -/
class RawPartsMut (π : Type) where
  parts : {ρ : Type} → π → Nat → M ρ SliceMut
instance : RawPartsMut RawPtr := ⟨fun p cap s =>
  match p.own, p.h with
  | true, .inl raw => if cap ≤ raw.length then .next ⟨0, cap⟩ s else .ub .oob
  | false, .heap a _ => (match s.hp.get? a with | some b => if cap ≤ b.cap then .next ⟨0, cap⟩ s else .ub .oob | none => .ub .useAfterFree)
  | true, .stat _ _ => .ub .writeStatic        -- a static value taken for an inline one
  | _, _ => .ub .oob⟩
/-- a sub-slice of the storage `self` owns, from a pointer into it (bounds are checked where it is written) -/
instance : RawPartsMut MutPtr := ⟨fun p n s => .next ⟨p.off, n⟩ s⟩
def slice.from_raw_parts_mut {ρ π} [RawPartsMut π] (p : π) (cap : Nat) : M ρ SliceMut := RawPartsMut.parts p cap
def SliceMut.rs_get_unchecked_mut_to {ρ} (sl : SliceMut) (r : Nat) : M ρ SliceMut := fun s =>
  if r ≤ sl.len then .next ⟨sl.off, r⟩ s else .ub .oob
def str.from_utf8_unchecked_mut {ρ} (sl : SliceMut) : M ρ SliceMut := pure sl
/-- a string literal of the source, as its bytes -/
def Str.lit (b : Bytes) : Str := ⟨b⟩

/-! ## `while` loops, `FnMut` closures of the caller, drop guards (`retain`) -/

/-- `while c { body }` over the locals the body assigns; the caller supplies fuel, running out of it is an alarm -/
def whileLoop {ρ σ} (cond : σ → M ρ Bool) (body : σ → M ρ σ) : Nat → σ → M ρ σ
  | 0, _ => alarm .diverge
  | fuel + 1, x => Rt.bind (cond x) fun c => if c then Rt.bind (body x) (whileLoop cond body fuel) else Rt.pure x

/-- `impl FnMut(char) -> bool` of the caller: user code as data — the answers it will give, `none` = it panics;
calling it consumes one (an exhausted list answers `true`, as the hand model's `retainScan`) -/
structure Pred where
  answers : List (Option Bool)
def Pred.rs_call_mut {ρ} (p : Pred) (_c : Chr) : M ρ (Bool × Pred) := fun s =>
  match p.answers.headD (some true) with
  | none => .pcb s
  | some b => .next (b, ⟨p.answers.tail⟩) s

def SliceMut.rs_get_unchecked_range {ρ} (sl : SliceMut) (a b : Nat) : M ρ SliceMut := fun s =>
  if a ≤ b ∧ b ≤ sl.len then .next ⟨sl.off + a, b - a⟩ s else .ub .oob
/-- `ch.encode_utf8(dst)` into a sub-slice of the storage `self` owns -/
instance : EncodeBuf SliceMut := ⟨fun c sl s =>
  if c.b.length ≤ sl.len then
    match writeBytes s.hp s.self sl.off c.b with
    | .ok (hp', r') => .next ⟨c.b⟩ { s with hp := hp', self := r' }
    | .error u => .ub u
  else .pidx s⟩

/-! ## Constants the source names -/

def MAX_INLINE_SIZE : Nat := MAX_INLINE
def LastByte.HeapMarker : Nat := Gen.heapMarker
def LastByte.StaticMarker : Nat := Gen.staticMarker

/-! ## Running a translated function -/

/-- a `Result<(), ReserveError>` method on `self`, as the hand model's `Res Unit` -/
def runUnit (m : M (Rs Unit) (Rs Unit)) (rf : Refuse) (st : List Bytes) (hp : Heap) (r : Handle) : Res Unit :=
  match m ⟨rf, st, hp, r⟩ with
  | .next (.ok _) s | .done (.ok _) s => .ok () s.hp s.self
  | .next .err s | .done .err s | .palloc s => .err s.hp s.self
  | .pidx s => .pidx s.hp s.self
  | .pcb s => .pcb s.hp s.self
  | .ub u => .ub u

/-- a method returning `()` -/
def runVoid (m : M Unit Unit) (rf : Refuse) (st : List Bytes) (hp : Heap) (r : Handle) : Except UB (Heap × Handle) :=
  match m ⟨rf, st, hp, r⟩ with
  | .next _ s | .done _ s => .ok (s.hp, s.self)
  | .pidx _ | .palloc _ | .pcb _ => .error .oob
  | .ub u => .error u

/-- a function returning a value, `self` untouched -/
def runVal {α} (m : M α α) (rf : Refuse) (st : List Bytes) (hp : Heap) (r : Handle) : Except UB (α × Heap) :=
  match m ⟨rf, st, hp, r⟩ with
  | .next v s | .done v s => .ok (v, s.hp)
  | .pidx _ | .palloc _ | .pcb _ => .error .oob
  | .ub u => .error u

/-! ## Outcomes of translated functions in the hand model's vocabulary -/

/-- the outcome of a `Result<(), ReserveError>` method, as the hand model's `Res Unit` -/
def resOf : Step (Rs Unit) (Rs Unit) → Res Unit
  | .next (.ok _) s | .done (.ok _) s => .ok () s.hp s.self
  | .next .err s | .done .err s | .palloc s => .err s.hp s.self
  | .pidx s => .pidx s.hp s.self
  | .pcb s => .pcb s.hp s.self
  | .ub u => .ub u

/-- the outcome of a method returning `()` -/
def resV : Step Unit Unit → Res Unit
  | .next _ s | .done _ s => .ok () s.hp s.self
  | .pidx s => .pidx s.hp s.self
  | .palloc s => .err s.hp s.self
  | .pcb s => .pcb s.hp s.self
  | .ub u => .ub u

/-- outcome of a method returning `Result<char, ReserveError>`; the character as its bytes -/
def resOfChr : Step (Rs Chr) (Rs Chr) → Res Bytes
  | .next (.ok c) s | .done (.ok c) s => .ok c.b s.hp s.self
  | .next .err s | .done .err s | .palloc s => .err s.hp s.self
  | .pidx s => .pidx s.hp s.self
  | .pcb s => .pcb s.hp s.self
  | .ub u => .ub u

def resOfOptChr : Step (Rs (Option Chr)) (Rs (Option Chr)) → Res (Option Bytes)
  | .next (.ok c) s | .done (.ok c) s => .ok (c.map (·.b)) s.hp s.self
  | .next .err s | .done .err s | .palloc s => .err s.hp s.self
  | .pidx s => .pidx s.hp s.self
  | .pcb s => .pcb s.hp s.self
  | .ub u => .ub u

end LS.Rt
