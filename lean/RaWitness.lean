import LSModel.ConcRA
/-! Searches the release/acquire model for a racing history under the orderings translated from the
source on this run (`Gen.atomicOrdCodes`). Used by `check C04` when `C04RA.src_orderings` no longer
holds. Prints one line: `RACE <history>` or `NO-RACE`. -/
open LS.ConcRA

def candidates : List (String × List Nat × List (Nat × Act)) := [
  ("two threads share one buffer; thread 1 reads it and drops its handle; thread 0 tests uniqueness, reads count 1 and writes in place",
   [1, 1], [(1, .readStart 0), (1, .readEnd), (1, .drop 0), (0, .probe 0 0), (0, .write)]),
  ("two threads share one buffer; thread 1 reads it and drops its handle; thread 0 drops the last handle and deallocates",
   [1, 1], [(1, .readStart 0), (1, .readEnd), (1, .drop 0), (0, .drop 0), (0, .free)]),
  ("thread 0 clones, sends the clone to thread 1; thread 1 reads and drops; thread 0 tests uniqueness and writes in place",
   [1, 0], [(0, .clone 0), (0, .send 0 1), (1, .readStart 0), (1, .readEnd), (1, .drop 0), (0, .probe 0 0), (0, .write)]),
  ("thread 0 writes in place, clones, sends the clone; thread 1 reads",
   [1, 0], [(0, .probe 0 0), (0, .write), (0, .clone 0), (0, .send 0 1), (1, .readStart 0), (1, .readEnd)])]

def main : IO Unit := do
  let o := srcOrds
  IO.println s!"orderings: addRel={o.addRel} addAcq={o.addAcq} subRel={o.subRel} subAcq={o.subAcq} fenceAcq={o.fenceAcq} loadAcq={o.loadAcq}"
  for (desc, ks, sched) in candidates do
    match run o (initCfg ks) sched with
    | some c =>
      if c.bad then
        let sch := String.intercalate ", " (sched.map (fun p => s!"({p.1}, {((toString (repr p.2)).replace "LS.ConcRA.Act." "")})"))
        IO.println s!"RACE initial handles per thread {ks}; schedule (thread, micro-step): [{sch}]; {desc}"
        return
    | none => pure ()
  IO.println "NO-RACE"
