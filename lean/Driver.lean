import LSModel.Api
import LSModel.ApiGen
import LSModel.Num
import LSModel.Decode
/-!
Correspondence driver: reads the harness's script on stdin, runs the model, prints one canonical
observation record per operation line (same format as `harness/src/exec.rs`).
-/
open LS

def hexDigit (n : Nat) : Char := if n < 10 then Char.ofNat (48 + n) else Char.ofNat (87 + n)

def hexOf (b : Bytes) : String :=
  if b.isEmpty then "-" else
  String.ofList (b.flatMap fun x => [hexDigit (x.toNat / 16), hexDigit (x.toNat % 16)])

def nib (c : Char) : Option Nat :=
  if '0' ≤ c ∧ c ≤ '9' then some (c.toNat - 48)
  else if 'a' ≤ c ∧ c ≤ 'f' then some (c.toNat - 87)
  else if 'A' ≤ c ∧ c ≤ 'F' then some (c.toNat - 55)
  else none

def unhexList : List Char → Option Bytes
  | [] => some []
  | a :: b :: rest => do
    let x ← nib a
    let y ← nib b
    let r ← unhexList rest
    pure (UInt8.ofNat (x * 16 + y) :: r)
  | _ => none

def unhex16List : List Char → Option (List Nat)
  | [] => some []
  | a :: b :: c :: d :: rest => do
    let w ← nib a; let x ← nib b; let y ← nib c; let z ← nib d
    let r ← unhex16List rest
    pure ((w * 4096 + x * 256 + y * 16 + z) :: r)
  | _ => none

def unhex16 (s : String) : Option (List Nat) := if s == "-" then some [] else unhex16List s.toList

def unhex (s : String) : Option Bytes := if s == "-" then some [] else unhexList s.toList

def parseItems (s : String) : Option (List (Option Bytes)) :=
  if s == "-" then some [] else
  (s.splitOn ",").mapM fun t => if t == "P" then some none else (unhex t).map some

def parsePieces (s : String) : Option (List Piece) :=
  if s == "-" then some [] else
  (s.splitOn ",").mapM fun t =>
    if t == "P" then some Piece.panic else if t == "E" then some Piece.fail else (unhex t).map Piece.text

def parseAnswers (s : String) : List (Option Bool) :=
  if s == "-" then [] else
  s.toList.map fun c => if c == 'T' then some true else if c == 'F' then some false else none

def fmtEv : Ev → String
  | .alloc n => s!"A{n}"
  | .allocX n => s!"X{n}"
  | .realloc o n => s!"R{o}>{n}"
  | .reallocX o n => s!"Y{o}>{n}"
  | .free n => s!"F{n}"

def fmtOut : Out → String
  | .ok .unit => "ok"
  | .ok .none => "ok:none"
  | .ok (.some b) => s!"ok:some:{hexOf b}"
  | .ok (.char b) => s!"ok:{hexOf b}"
  | .err => "err"
  | .errFmt => "err_fmt"
  | .errUtf8 => "err_utf8"
  | .errUtf16 => "err_utf16"
  | .panicIdx => "panic_idx"
  | .panicAlloc => "panic_alloc"
  | .panicCb => "panic_cb"
  | .ub u => s!"MODEL-UB:{repr u}"
  | .bad => "bad-op"

def fmtHandle (w : World) (i : Nat) (r : Handle) : String :=
  let text := match textOf w.heap w.statics r with | .ok t => hexOf t | .error u => s!"UB:{repr u}"
  match r with
  | .inl _ => s!"h{i}=I:{r.len}:{MAX_INLINE}:self:-:{text}"
  | .heap a l =>
    match w.heap.get? a with
    | some b => s!"h{i}=H:{l}:{b.cap}:B{a}:{b.rc}:{text}"
    | none => s!"h{i}=H:{l}:?:B{a}:?:{text}"
  | .stat s l => s!"h{i}=S:{l}:{l}:S{s}:-:{text}"

def fmtHandles (w : World) : String :=
  let rec go (i : Nat) : List (Option Handle) → List String
    | [] => []
    | none :: rest => go (i + 1) rest
    | some r :: rest => fmtHandle w i r :: go (i + 1) rest
  String.intercalate " " (go 0 w.pool)

structure DState where
  w : World := {}
  faults : List Nat := []
  limit : Nat := 1 <<< 20
  /-- `--gen`: run the public calls over the *translated* repr.rs (`stepG`, LSModel/ApiGen.lean) -/
  gen : Bool := false

def DState.rf (s : DState) : Refuse := fun idx size => s.faults.contains idx || decide (size > s.limit)

def parseOp (t : List String) : Option Op :=
  let n (s : String) := s.toNat?
  match t with
  | ["new", d] => do pure (.new (← n d))
  | ["from", d, x] | ["from_string", d, x] | ["from_box", d, x] | ["from_cow", d, x] | ["from_ref_string", d, x] | ["from_unchecked", d, x] =>
    do pure (.fromStr (← n d) (← unhex x) true)
  | ["try_from", d, x] => do pure (.fromStr (← n d) (← unhex x) false)
  | ["from_static", d, s] => do pure (.fromStatic (← n d) (← n s))
  | ["with_capacity", d, k] => do pure (.withCapacity (← n d) (← n k) true)
  | ["try_with_capacity", d, k] => do pure (.withCapacity (← n d) (← n k) false)
  | ["from_char", d, x] => do pure (.fromChar (← n d) (← unhex x))
  | ["clone", d, s] | ["from_ref", d, s] | ["to_ls", d, s] => do pure (.clone (← n d) (← n s))
  | ["clone_from", d, s] => do pure (.cloneFrom (← n d) (← n s))
  | ["drop", h] => do pure (.drop (← n h))
  | ["push", h, x] | ["push_str", h, x] | ["add_assign", h, x] => do pure (.pushStr (← n h) (← unhex x) true)
  | ["try_push", h, x] | ["try_push_str", h, x] => do pure (.pushStr (← n h) (← unhex x) false)
  | ["pop", h] => do pure (.pop (← n h) true)
  | ["try_pop", h] => do pure (.pop (← n h) false)
  | ["remove", h, i] => do pure (.remove (← n h) (← n i) true)
  | ["try_remove", h, i] => do pure (.remove (← n h) (← n i) false)
  | ["insert", h, i, x] | ["insert_str", h, i, x] => do pure (.insertStr (← n h) (← n i) (← unhex x) true)
  | ["try_insert", h, i, x] | ["try_insert_str", h, i, x] => do pure (.insertStr (← n h) (← n i) (← unhex x) false)
  | ["truncate", h, k] => do pure (.truncate (← n h) (← n k) true)
  | ["try_truncate", h, k] => do pure (.truncate (← n h) (← n k) false)
  | ["clear", h] => do pure (.clear (← n h))
  | ["retain", h, p] => do pure (.retain (← n h) (parseAnswers p) true)
  | ["try_retain", h, p] => do pure (.retain (← n h) (parseAnswers p) false)
  | ["reserve", h, k] => do pure (.reserve (← n h) (← n k) true)
  | ["try_reserve", h, k] => do pure (.reserve (← n h) (← n k) false)
  | ["shrink_to", h, k] => do pure (.shrinkTo (← n h) (← n k) true)
  | ["try_shrink_to", h, k] => do pure (.shrinkTo (← n h) (← n k) false)
  | ["shrink_to_fit", h] => do pure (.shrinkTo (← n h) 0 true)
  | ["try_shrink_to_fit", h] => do pure (.shrinkTo (← n h) 0 false)
  | ["extend_chars", h, "exact", it] => do
    let items ← parseItems it
    pure (.extendChars (← n h) items.length items)
  | ["collect_chars", d, "exact", it] => do
    let items ← parseItems it
    pure (.collectChars (← n d) items.length items)
  | ["extend_chars", h, k, it] => do pure (.extendChars (← n h) (← n k) (← parseItems it))
  | ["extend_strs", h, it] | ["write", h, it] => do pure (.extendStrs (← n h) (← parseItems it))
  | ["collect_chars", d, k, it] => do pure (.collectChars (← n d) (← n k) (← parseItems it))
  | ["collect_strs", d, it] => do pure (.collectStrs (← n d) (← parseItems it))
  | ["display", d, p] => do pure (.display (← n d) (← parsePieces p))
  | _ => none

/-- numbers and decoders: scripts name integer types by their Rust name (`nz_` = NonZero) -/
def parseOp2 (t : List String) : Option Op :=
  match t with
  | ["int", d, ty, v] => do
    let base := if ty.startsWith "nz_" then (ty.drop 3).toString else ty
    pure (.fromInt (← d.toNat?) (← IntTy.ofName base) (← v.toInt?))
  | ["from_bool", d, b] => do pure (.fromBool (← d.toNat?) (b == "1"))
  | ["from_utf8", d, x] => do pure (.fromUtf8 (← d.toNat?) (← unhex x))
  | ["from_utf8_lossy", d, x] => do pure (.fromUtf8Lossy (← d.toNat?) (← unhex x))
  | ["from_utf16", d, x] => do pure (.fromUtf16 (← d.toNat?) (← unhex16 x))
  | ["from_utf16_lossy", d, x] => do pure (.fromUtf16Lossy (← d.toNat?) (← unhex16 x))
  | _ => none

def obsLine (w0 w1 : World) (out : Out) : String :=
  let k := w1.heap.log.length - w0.heap.log.length
  let evs := (w1.heap.log.take k).reverse
  let ev := if evs.isEmpty then "-" else String.intercalate "," (evs.map fmtEv)
  let hs := fmtHandles w1
  s!"out={fmtOut out} ev={ev}" ++ (if hs.isEmpty then "" else " " ++ hs)

def stepLine (s : DState) (line : String) : DState × Option String :=
  let t := (line.trimAscii.toString.splitOn " ").filter (· ≠ "")
  match t with
  | [] => (s, none)
  | "reset" :: _ => ({ w := { statics := s.w.statics }, gen := s.gen }, none)
  | ["static", sid, x] =>
    match sid.toNat?, unhex x with
    | some k, some b =>
      if k = s.w.statics.length then ({ s with w := { s.w with statics := s.w.statics ++ [b] } }, none)
      else (s, some "bad-static")
    | _, _ => (s, some "bad-static")
  | ["fault", k] => match k.toNat? with
    | some k => ({ s with faults := (s.w.heap.reqs + k) :: s.faults }, none)
    | none => (s, some "bad-control")
  | ["faultabs", k] => match k.toNat? with
    | some k => ({ s with faults := k :: s.faults }, none)
    | none => (s, some "bad-control")
  | ["limit", k] => match k.toNat? with
    | some k => ({ s with limit := k }, none)
    | none => (s, some "bad-control")
  | _ =>
    if line.startsWith "#" then (s, none) else
    let stp := if s.gen then stepG else step
    let res : World × Out := match t with
      | ["add", hd, x] =>
        -- `s = s + t`: `push_str` on a value taken by the operator; if the call unwinds the operand is destroyed
        match hd.toNat?, unhex x with
        | some hh, some bs =>
          let (w1, o1) := stp s.rf s.w (.pushStr hh bs true)
          (match o1 with
           | .panicAlloc | .panicIdx | .panicCb => ((stp s.rf w1 (.drop hh)).1, o1)
           | _ => (w1, o1))
        | _, _ => (s.w, .bad)
      | _ =>
      match parseOp t with
      | some op => stp s.rf s.w op
      | none => match parseOp2 t with
        | some op => stp s.rf s.w op
        | none => (s.w, .bad)
    let (w1, out) := res
    -- a refused request consumes its one-shot fault
    let used := s.faults.filter fun k => decide (k < w1.heap.reqs)
    let faults := s.faults.filter fun k => !used.contains k
    ({ s with w := w1, faults := faults }, some (obsLine s.w w1 out))

partial def loop (h : IO.FS.Stream) (out : IO.FS.Stream) (s : DState) : IO Unit := do
  let line ← h.getLine
  if line.isEmpty then return ()
  let (s', o) := stepLine s line
  match o with
  | some l => out.putStrLn l
  | none => pure ()
  loop h out s'

def main (args : List String) : IO Unit := do
  let stdin ← IO.getStdin
  let stdout ← IO.getStdout
  loop stdin stdout { gen := args.contains "--gen" }
