import LSModel.Generated
import LSModel.Basic
import LSModel.Handle
import LSModel.Api
import LSModel.Num
import LSModel.Decode
