//! Script executor: runs one operation line on the real crate, prints the canonical observation
//! record, and evaluates the property monitors (independent of the Lean model) against
//! `std::string::String`, the shadow heap and the pre-call snapshot.

use crate::shadow::{self, Ev};
use lean_string::{LeanString, ToLeanString, verif_hooks};
use std::collections::HashMap;
use std::fmt::Write as _;
use std::panic::{AssertUnwindSafe, catch_unwind};

pub fn hex(b: &[u8]) -> String {
    if b.is_empty() {
        return "-".into();
    }
    let mut s = String::with_capacity(b.len() * 2);
    for x in b {
        write!(s, "{x:02x}").unwrap();
    }
    s
}

pub fn unhex(s: &str) -> Option<Vec<u8>> {
    if s == "-" {
        return Some(vec![]);
    }
    if s.len() % 2 != 0 {
        return None;
    }
    (0..s.len() / 2).map(|i| u8::from_str_radix(&s[2 * i..2 * i + 2], 16).ok()).collect()
}

fn unhex_str(s: &str) -> Option<String> {
    String::from_utf8(unhex(s)?).ok()
}

fn unhex_char(s: &str) -> Option<char> {
    let t = unhex_str(s)?;
    let mut it = t.chars();
    let c = it.next()?;
    if it.next().is_some() { None } else { Some(c) }
}

#[derive(Clone, Debug, PartialEq, Eq)]
pub enum Out {
    Ok(String), // value rendering ("" for unit)
    Err,
    ErrFmt,
    ErrUtf8,
    ErrUtf16,
    PanicIdx,
    PanicAlloc,
    PanicCb,
    PanicOther(String),
    Bad,
}

impl Out {
    pub fn fmt(&self) -> String {
        match self {
            Out::Ok(v) if v.is_empty() => "ok".into(),
            Out::Ok(v) => format!("ok:{v}"),
            Out::Err => "err".into(),
            Out::ErrFmt => "err_fmt".into(),
            Out::ErrUtf8 => "err_utf8".into(),
            Out::ErrUtf16 => "err_utf16".into(),
            Out::PanicIdx => "panic_idx".into(),
            Out::PanicAlloc => "panic_alloc".into(),
            Out::PanicCb => "panic_cb".into(),
            Out::PanicOther(m) => format!("panic_other:{}", m.replace(' ', "_")),
            Out::Bad => "bad-op".into(),
        }
    }
    pub fn class(&self) -> &'static str {
        match self {
            Out::Ok(_) => "ok",
            Out::Err => "err",
            Out::ErrFmt | Out::ErrUtf8 | Out::ErrUtf16 => "err_other",
            Out::PanicIdx => "panic_idx",
            Out::PanicAlloc => "panic_alloc",
            Out::PanicCb => "panic_cb",
            Out::PanicOther(_) => "panic_other",
            Out::Bad => "bad",
        }
    }
    fn is_alloc_failure(&self) -> bool {
        matches!(self, Out::Err | Out::PanicAlloc)
    }
}

const CB_PANIC: &str = "verif-callback-panic";

fn classify_panic(p: Box<dyn std::any::Any + Send>) -> Out {
    let msg = if let Some(s) = p.downcast_ref::<&str>() {
        s.to_string()
    } else if let Some(s) = p.downcast_ref::<String>() {
        s.clone()
    } else {
        "<non-string payload>".to_string()
    };
    if msg == CB_PANIC {
        Out::PanicCb
    } else if msg.starts_with("Cannot allocate memory to hold LeanString") {
        Out::PanicAlloc
    } else if msg.starts_with("index is not a char boundary")
        || msg.starts_with("index out of bounds")
        || msg.contains("is not a char boundary")
        || msg.contains("Cannot remove a char from the end of a string")
        || msg.contains("cannot remove a char from the end of a string")
    {
        Out::PanicIdx
    } else {
        Out::PanicOther(msg)
    }
}

/// Run `f`, mapping `Result<String, ReserveError>`-like results and panics to `Out`.
fn guarded(f: impl FnOnce() -> Out) -> Out {
    match catch_unwind(AssertUnwindSafe(f)) {
        Ok(o) => o,
        Err(p) => classify_panic(p),
    }
}

fn res_unit<E>(r: Result<(), E>) -> Out {
    match r {
        Ok(()) => Out::Ok(String::new()),
        Err(_) => Out::Err,
    }
}

#[derive(Clone, Debug)]
pub struct Failure {
    pub props: Vec<&'static str>,
    pub msg: String,
    pub script: Vec<String>,
}

#[derive(Clone, Debug, PartialEq, Eq)]
pub struct HandleObs {
    pub kind: char,
    pub len: usize,
    pub cap: usize,
    pub ptr: String,
    pub rc: Option<usize>,
    pub text: Vec<u8>,
    pub addr: usize,
}

impl HandleObs {
    fn fmt(&self, i: usize) -> String {
        format!(
            "h{}={}:{}:{}:{}:{}:{}",
            i,
            self.kind,
            self.len,
            self.cap,
            self.ptr,
            self.rc.map(|r| r.to_string()).unwrap_or_else(|| "-".into()),
            hex(&self.text)
        )
    }
}

pub struct StaticText {
    pub text: &'static str,
    pub pristine: Vec<u8>,
}

/// Iterator with a caller-chosen lower size hint whose items may panic.
struct Items<T: Clone> {
    items: Vec<Option<T>>,
    pos: usize,
    hint: usize,
}
impl<T: Clone> Iterator for Items<T> {
    type Item = T;
    fn next(&mut self) -> Option<T> {
        if self.pos >= self.items.len() {
            return None;
        }
        let it = self.items[self.pos].clone();
        self.pos += 1;
        match it {
            Some(x) => Some(x),
            None => panic!("{}", CB_PANIC),
        }
    }
    fn size_hint(&self) -> (usize, Option<usize>) {
        (self.hint, None)
    }
}

/// `Iterator<Item = &char>` with a size hint of the caller's choosing (a `None` item panics, as in `Items`).
struct RefCharItems<'a> {
    items: &'a [Option<char>],
    pos: usize,
    hint: usize,
}
impl<'a> Iterator for RefCharItems<'a> {
    type Item = &'a char;
    fn next(&mut self) -> Option<&'a char> {
        if self.pos >= self.items.len() {
            return None;
        }
        let it = &self.items[self.pos];
        self.pos += 1;
        match it {
            Some(x) => Some(x),
            None => panic!("{}", CB_PANIC),
        }
    }
    fn size_hint(&self) -> (usize, Option<usize>) {
        (self.hint, None)
    }
}

/// The same items borrowed: `Iterator<Item = &str>` (a `None` item panics, as in `Items`).
struct RefItems<'a> {
    items: &'a [Option<String>],
    pos: usize,
}
impl<'a> Iterator for RefItems<'a> {
    type Item = &'a str;
    fn next(&mut self) -> Option<&'a str> {
        if self.pos >= self.items.len() {
            return None;
        }
        let it = &self.items[self.pos];
        self.pos += 1;
        match it {
            Some(x) => Some(x.as_str()),
            None => panic!("{}", CB_PANIC),
        }
    }
}

/// Which `Extend<_>` / `FromIterator<_>` impl a string-item line exercises: chosen from the items so that a
/// script line always means the same call: 0 `String`, 1 `&str`, 2 `Box<str>`, 3 `Cow<str>`, 4 `LeanString`
/// (only when every item fits inline: building the items must not touch the crate's allocator).
fn item_kind(items: &[Option<String>]) -> usize {
    let bytes: usize = items.iter().flatten().map(|s| s.len()).sum();
    let k = (bytes + items.len()) % 5;
    if k == 4 && items.iter().flatten().any(|s| s.len() > 16) { 0 } else { k }
}

#[derive(Clone)]
enum Piece {
    Text(String),
    Fail,
    Panic,
}
struct Disp(Vec<Piece>);
impl std::fmt::Display for Disp {
    fn fmt(&self, f: &mut std::fmt::Formatter<'_>) -> std::fmt::Result {
        for p in &self.0 {
            match p {
                // every way a `Display` impl can reach the sink: `write_char` for a one-character piece, `write!` /
                // `write_fmt` for some, `write_str` for the rest (the text written is the same)
                Piece::Text(t) if t.chars().count() == 1 => std::fmt::Write::write_char(f, t.chars().next().unwrap())?,
                Piece::Text(t) if t.len() % 3 == 1 => write!(f, "{}", t)?,
                Piece::Text(t) if t.len() % 3 == 2 => f.write_fmt(format_args!("{}{}", &t[..0], t))?,
                Piece::Text(t) => f.write_str(t)?,
                Piece::Fail => return Err(std::fmt::Error),
                Piece::Panic => panic!("{}", CB_PANIC),
            }
        }
        Ok(())
    }
}

#[derive(Default)]
pub struct Stats {
    pub ops: u64,
    pub cases: u64,
    pub nontrivial_cases: u64,
    pub matrix: HashMap<String, u64>,
    pub case_hashes: std::collections::HashSet<u64>,
    pub nontrivial_hashes: std::collections::HashSet<u64>,
    pub outcomes: HashMap<&'static str, u64>,
}

pub struct Exec {
    pub pool: Vec<Option<LeanString>>,
    pub oracle: Vec<Option<String>>,
    pub statics: Vec<StaticText>,
    pub static_lines: Vec<String>,
    pub script: Vec<String>,
    pub obs: Vec<String>,
    pub keep_obs: bool,
    pub failures: Vec<Failure>,
    pub stats: Stats,
    pub case_nontrivial: bool,
    pub last_out: Out,
    pub last_events: Vec<Ev>,
    /// the target of the running mutator borrowed a static text when the call started (C10)
    pub tgt_was_static: bool,
}

fn parse_items_chars(s: &str) -> Option<Vec<Option<char>>> {
    if s == "-" {
        return Some(vec![]);
    }
    s.split(',').map(|t| if t == "P" { Some(None) } else { unhex_char(t).map(Some) }).collect()
}
fn parse_items_strs(s: &str) -> Option<Vec<Option<String>>> {
    if s == "-" {
        return Some(vec![]);
    }
    s.split(',').map(|t| if t == "P" { Some(None) } else { unhex_str(t).map(Some) }).collect()
}
fn parse_pieces(s: &str) -> Option<Vec<Piece>> {
    if s == "-" {
        return Some(vec![]);
    }
    s.split(',')
        .map(|t| match t {
            "P" => Some(Piece::Panic),
            "E" => Some(Piece::Fail),
            _ => unhex_str(t).map(Piece::Text),
        })
        .collect()
}

impl Exec {
    pub fn new() -> Self {
        Exec {
            pool: Vec::new(),
            oracle: Vec::new(),
            statics: Vec::new(),
            static_lines: Vec::new(),
            script: Vec::new(),
            obs: Vec::new(),
            keep_obs: true,
            failures: Vec::new(),
            stats: Stats::default(),
            case_nontrivial: false,
            last_out: Out::Ok(String::new()),
            last_events: Vec::new(),
            tgt_was_static: false,
        }
    }

    fn ensure(&mut self, i: usize) {
        while self.pool.len() <= i {
            self.pool.push(None);
            self.oracle.push(None);
        }
    }

    pub fn live(&self, i: usize) -> bool {
        i < self.pool.len() && self.pool[i].is_some()
    }

    pub fn observe(&self, i: usize) -> Option<HandleObs> {
        let s = self.pool.get(i)?.as_ref()?;
        let kind = match verif_hooks::kind(s) {
            0 => 'I',
            1 => 'H',
            _ => 'S',
        };
        let p = s.as_str().as_ptr() as usize;
        let me = s as *const LeanString as usize;
        let ptr = if p >= me && p < me + 16 {
            "self".to_string()
        } else if let Some((b, off, _live)) = shadow::with(|sh| sh.locate(p)) {
            if off == 16 { format!("B{b}") } else { format!("B{b}+{off}") }
        } else if let Some(k) = self.statics.iter().position(|t| t.text.as_ptr() as usize == p) {
            format!("S{k}")
        } else if s.is_empty() && kind != 'I' {
            // zero-length view into a block or static text: still attributable by address
            "?".to_string()
        } else {
            "?".to_string()
        };
        Some(HandleObs {
            kind,
            len: s.len(),
            cap: s.capacity(),
            ptr,
            rc: verif_hooks::ref_count(s),
            text: s.as_bytes().to_vec(),
            addr: p,
        })
    }

    pub fn observe_all(&self) -> Vec<Option<HandleObs>> {
        (0..self.pool.len()).map(|i| self.observe(i)).collect()
    }

    fn fail(&mut self, props: &[&'static str], msg: String) {
        if self.failures.len() < 200 {
            let mut script = self.static_lines.clone();
            script.extend(self.script.iter().cloned());
            self.failures.push(Failure { props: props.to_vec(), msg, script });
        }
    }

    /// End the current case: drop every handle, audit the shadow heap, reset.
    pub fn reset(&mut self) {
        if !self.script.is_empty() {
            self.stats.cases += 1;
            let mut h = std::collections::hash_map::DefaultHasher::new();
            std::hash::Hash::hash(&self.script, &mut h);
            let hv = std::hash::Hasher::finish(&h);
            self.stats.case_hashes.insert(hv);
            if self.case_nontrivial {
                self.stats.nontrivial_cases += 1;
                self.stats.nontrivial_hashes.insert(hv);
            }
        }
        for i in 0..self.pool.len() {
            let r = catch_unwind(AssertUnwindSafe(|| {
                self.pool[i] = None;
            }));
            if r.is_err() {
                self.fail(&["C03"], format!("dropping handle h{i} at end of case panicked"));
            }
        }
        let (live, errs) = shadow::with(|sh| {
            let live = sh.live_blocks();
            sh.reset();
            (live, std::mem::take(&mut sh.errors))
        });
        if live != 0 {
            self.fail(&["C03"], format!("{live} heap block(s) still allocated after every handle was dropped (leak)"));
        }
        for e in errs {
            self.fail(&["C03"], format!("shadow heap: {e}"));
        }
        self.pool.clear();
        self.oracle.clear();
        self.script.clear();
        self.case_nontrivial = false;
    }

    pub fn add_static(&mut self, line: &str, sid: usize, bytes: Vec<u8>) -> bool {
        if sid != self.statics.len() || std::str::from_utf8(&bytes).is_err() {
            return false;
        }
        let leaked: &'static mut [u8] = Box::leak(bytes.clone().into_boxed_slice());
        let text: &'static str = unsafe { std::str::from_utf8_unchecked(leaked) };
        self.statics.push(StaticText { text, pristine: bytes });
        self.static_lines.push(line.to_string());
        true
    }

    /// Execute one script line. Returns the observation line (None for control lines).
    pub fn exec_line(&mut self, line: &str) -> Option<String> {
        let line = line.trim();
        if line.is_empty() || line.starts_with('#') {
            return None;
        }
        let t: Vec<&str> = line.split_whitespace().collect();
        match t[0] {
            "reset" => {
                self.reset();
                return None;
            }
            "static" => {
                let ok = t.len() == 3
                    && t[1].parse::<usize>().ok().zip(unhex(t[2])).map(|(sid, b)| self.add_static(line, sid, b)) == Some(true);
                if !ok {
                    panic!("bad static line: {line}");
                }
                return None;
            }
            "fault" | "faultabs" | "limit" => {
                self.script.push(line.to_string());
                let n: u64 = t.get(1).and_then(|x| x.parse().ok()).expect("bad control line");
                shadow::with(|sh| match t[0] {
                    "fault" => {
                        let at = sh.reqs + n;
                        sh.faults.insert(at);
                    }
                    "faultabs" => {
                        sh.faults.insert(n);
                    }
                    _ => sh.limit = n as usize,
                });
                return None;
            }
            _ => {}
        }
        self.script.push(line.to_string());
        let o = self.exec_op(&t);
        if self.keep_obs {
            self.obs.push(o.clone());
        }
        Some(o)
    }

    fn exec_op(&mut self, t: &[&str]) -> String {
        // ---- pre-state snapshot
        let before = self.observe_all();
        let reqs_before = shadow::with(|sh| {
            sh.events.clear();
            sh.reqs
        });
        let (out, targets) = self.dispatch(t);
        let events: Vec<Ev> = shadow::with(|sh| std::mem::take(&mut sh.events));
        let after = self.observe_all();
        // the read-backs must agree with each other on every live handle, whatever its history (C01: as_str, len,
        // is_empty, as_bytes)
        let mut bad_readback: Option<String> = None;
        for (i, slot) in self.pool.iter().enumerate() {
            if let Some(v) = slot {
                if v.is_empty() != (v.len() == 0) || v.as_str().len() != v.len() || v.as_bytes() != v.as_str().as_bytes() {
                    let msg = format!("after `{}` h{i}: is_empty() = {}, len() = {}, as_str() = {:?}, as_bytes().len() = {}", t.join(" "), v.is_empty(), v.len(), v.as_str(), v.as_bytes().len());
                    bad_readback = Some(msg);
                    break;
                }
            }
        }
        if let Some(msg) = bad_readback {
            self.fail(&["C01"], msg);
        }
        let _ = reqs_before;

        // ---- observation record
        let mut line = format!(
            "out={} ev={}",
            out.fmt(),
            if events.is_empty() { "-".to_string() } else { events.iter().map(|e| e.fmt()).collect::<Vec<_>>().join(",") }
        );
        for (i, h) in after.iter().enumerate() {
            if let Some(h) = h {
                line.push(' ');
                line.push_str(&h.fmt(i));
            }
        }

        // ---- monitors
        if out != Out::Bad {
            self.monitors(t, &out, &targets, &before, &after, &events);
        }
        self.stats.ops += 1;
        *self.stats.outcomes.entry(out.class()).or_insert(0) += 1;
        self.last_out = out;
        self.last_events = events;
        line
    }

    fn num(s: Option<&&str>) -> Option<usize> {
        s.and_then(|x| x.parse::<usize>().ok())
    }

    /// Runs the operation on the crate and on the `String` oracle. Returns the outcome and the
    /// list of target handles (those the operation is allowed to change).
    fn dispatch(&mut self, t: &[&str]) -> (Out, Vec<usize>) {
        let op = t[0];
        let a1 = Self::num(t.get(1));
        let Some(h) = a1 else { return (Out::Bad, vec![]) };
        if h > 64 {
            return (Out::Bad, vec![]);
        }
        self.ensure(h);
        let tryf = op.starts_with("try_");
        let base = op.strip_prefix("try_").unwrap_or(op);

        // ---------- constructors into an empty slot
        let ctor = matches!(
            base,
            "new" | "from" | "from_string" | "from_box" | "from_cow" | "from_ref_string" | "from_unchecked" | "from_static" | "with_capacity" | "from_char"
                | "clone" | "from_ref" | "to_ls" | "collect_chars" | "collect_strs" | "display" | "int" | "from_utf8"
                | "from_utf8_lossy" | "from_utf16" | "from_utf16_lossy" | "from_bool" | "float"
        );
        if ctor {
            if self.live(h) {
                return (Out::Bad, vec![]);
            }
            let r = self.construct(base, tryf, t);
            return match r {
                None => (Out::Bad, vec![]),
                Some((out, val, orc)) => {
                    if let Some(v) = val {
                        self.pool[h] = Some(v);
                        self.oracle[h] = orc;
                    }
                    (out, vec![h])
                }
            };
        }

        // ---------- operations on a live handle
        if !self.live(h) {
            return (Out::Bad, vec![]);
        }
        if base == "drop" {
            let out = guarded(|| {
                self.pool[h] = None;
                Out::Ok(String::new())
            });
            self.oracle[h] = None;
            return (out, vec![h]);
        }
        if base == "clone_from" {
            let Some(s) = Self::num(t.get(2)) else { return (Out::Bad, vec![]) };
            if !self.live(s) || s == h {
                return (Out::Bad, vec![]);
            }
            let src = self.pool[s].take().unwrap();
            let out = guarded(|| {
                self.pool[h].as_mut().unwrap().clone_from(&src);
                Out::Ok(String::new())
            });
            self.pool[s] = Some(src);
            let o = self.oracle[s].clone();
            self.oracle[h] = o;
            return (out, vec![h]);
        }
        let pre_oracle = self.oracle[h].clone().unwrap();
        self.tgt_was_static = self.pool[h].as_ref().map(|x| verif_hooks::kind(x) == 2).unwrap_or(false);
        let mut ls = self.pool[h].take().unwrap();
        let mut or = self.oracle[h].take().unwrap();
        // (crate outcome, oracle outcome)
        let mut iter_items: Option<Vec<String>> = None;
        let res: Option<(Out, Out)> = (|| {
            Some(match base {
                "push" => {
                    let c = unhex_char(t.get(2)?)?;
                    (
                        guarded(|| if tryf { res_unit(ls.try_push(c)) } else { ls.push(c); Out::Ok(String::new()) }),
                        guarded(|| { or.push(c); Out::Ok(String::new()) }),
                    )
                }
                "push_str" | "add_assign" | "add" => {
                    let s = unhex_str(t.get(2)?)?;
                    let o = guarded(|| match (base, tryf) {
                        ("push_str", true) => res_unit(ls.try_push_str(&s)),
                        ("push_str", false) => { ls.push_str(&s); Out::Ok(String::new()) }
                        ("add_assign", _) => { ls += &s; Out::Ok(String::new()) }
                        _ => {
                            let tmp = std::mem::take(&mut ls);
                            // `ls` is the empty inline string while the sum is evaluated
                            ls = tmp + &s;
                            Out::Ok(String::new())
                        }
                    });
                    (o, guarded(|| { or.push_str(&s); Out::Ok(String::new()) }))
                }
                "pop" => (
                    guarded(|| {
                        let r = if tryf { ls.try_pop() } else { Ok(ls.pop()) };
                        match r {
                            Ok(Some(c)) => Out::Ok(format!("some:{}", hex(c.to_string().as_bytes()))),
                            Ok(None) => Out::Ok("none".into()),
                            Err(_) => Out::Err,
                        }
                    }),
                    guarded(|| match or.pop() {
                        Some(c) => Out::Ok(format!("some:{}", hex(c.to_string().as_bytes()))),
                        None => Out::Ok("none".into()),
                    }),
                ),
                "remove" => {
                    let i = Self::num(t.get(2))?;
                    (
                        guarded(|| {
                            let r = if tryf { ls.try_remove(i) } else { Ok(ls.remove(i)) };
                            match r {
                                Ok(c) => Out::Ok(hex(c.to_string().as_bytes())),
                                Err(_) => Out::Err,
                            }
                        }),
                        guarded(|| Out::Ok(hex(or.remove(i).to_string().as_bytes()))),
                    )
                }
                "insert" => {
                    let i = Self::num(t.get(2))?;
                    let c = unhex_char(t.get(3)?)?;
                    (
                        guarded(|| if tryf { res_unit(ls.try_insert(i, c)) } else { ls.insert(i, c); Out::Ok(String::new()) }),
                        guarded(|| { or.insert(i, c); Out::Ok(String::new()) }),
                    )
                }
                "insert_str" => {
                    let i = Self::num(t.get(2))?;
                    let s = unhex_str(t.get(3)?)?;
                    (
                        guarded(|| if tryf { res_unit(ls.try_insert_str(i, &s)) } else { ls.insert_str(i, &s); Out::Ok(String::new()) }),
                        guarded(|| { or.insert_str(i, &s); Out::Ok(String::new()) }),
                    )
                }
                "truncate" => {
                    let n = Self::num(t.get(2))?;
                    (
                        guarded(|| if tryf { res_unit(ls.try_truncate(n)) } else { ls.truncate(n); Out::Ok(String::new()) }),
                        guarded(|| { or.truncate(n); Out::Ok(String::new()) }),
                    )
                }
                "clear" => (
                    guarded(|| { ls.clear(); Out::Ok(String::new()) }),
                    guarded(|| { or.clear(); Out::Ok(String::new()) }),
                ),
                "retain" => {
                    let pat: Vec<u8> = if *t.get(2)? == "-" { vec![] } else { t[2].bytes().collect() };
                    let mk = |pat: Vec<u8>| {
                        let mut k = 0usize;
                        move |_c: char| {
                            let a = pat.get(k).copied().unwrap_or(b'T');
                            k += 1;
                            match a {
                                b'T' => true,
                                b'F' => false,
                                _ => panic!("{}", CB_PANIC),
                            }
                        }
                    };
                    let (f1, f2) = (mk(pat.clone()), mk(pat));
                    (
                        guarded(|| if tryf { res_unit(ls.try_retain(f1)) } else { ls.retain(f1); Out::Ok(String::new()) }),
                        guarded(|| { or.retain(f2); Out::Ok(String::new()) }),
                    )
                }
                "reserve" => {
                    let n = Self::num(t.get(2))?;
                    (
                        guarded(|| if tryf { res_unit(ls.try_reserve(n)) } else { ls.reserve(n); Out::Ok(String::new()) }),
                        Out::Ok(String::new()),
                    )
                }
                "shrink_to" => {
                    let n = Self::num(t.get(2))?;
                    (
                        guarded(|| if tryf { res_unit(ls.try_shrink_to(n)) } else { ls.shrink_to(n); Out::Ok(String::new()) }),
                        Out::Ok(String::new()),
                    )
                }
                "shrink_to_fit" => (
                    guarded(|| if tryf { res_unit(ls.try_shrink_to_fit()) } else { ls.shrink_to_fit(); Out::Ok(String::new()) }),
                    Out::Ok(String::new()),
                ),
                "extend_chars" => {
                    let items = parse_items_chars(t.get(3)?)?;
                    iter_items = Some(items.iter().flatten().map(|c| c.to_string()).collect());
                    if *t.get(2)? == "exact" {
                        // an ExactSizeIterator (Vec<char>): size_hint = (n, Some(n)); no panicking item
                        let v: Vec<char> = items.iter().map(|c| *c).collect::<Option<Vec<char>>>()?;
                        let v2 = v.clone();
                        let by_ref = v.len() % 2 == 1;
                        (
                            guarded(|| { if by_ref { ls.extend(v.iter()) } else { ls.extend(v.into_iter()) }; Out::Ok(String::new()) }),
                            guarded(|| { or.extend(v2); Out::Ok(String::new()) }),
                        )
                    } else {
                        let hint = Self::num(t.get(2))?;
                        let store = items.clone();
                        // `Extend<char>` or `Extend<&char>` (same items, same hint): decided by the line itself
                        let by_ref = items.len().wrapping_add(hint) % 2 == 1;
                        let (i1, i2) = (Items { items: items.clone(), pos: 0, hint }, Items { items, pos: 0, hint: 0 });
                        (
                            guarded(|| {
                                if by_ref { ls.extend(RefCharItems { items: &store, pos: 0, hint }) } else { ls.extend(i1) };
                                Out::Ok(String::new())
                            }),
                            guarded(|| { or.extend(i2); Out::Ok(String::new()) }),
                        )
                    }
                }
                "extend_strs" | "write" => {
                    let items = parse_items_strs(t.get(2)?)?;
                    iter_items = Some(items.iter().flatten().cloned().collect());
                    let (i1, i2) = (Items { items: items.clone(), pos: 0, hint: 0 }, Items { items, pos: 0, hint: 0 });
                    if base == "write" {
                        (
                            guarded(|| {
                                use std::fmt::Write;
                                // every way into `fmt::Write`: `write_str`, `write!` with a run-time argument
                                // (`write_fmt`), and `write_char` for one-character pieces
                                for (k, s) in i1.enumerate() {
                                    let r = if s.chars().count() == 1 && k % 2 == 0 {
                                        ls.write_char(s.chars().next().unwrap())
                                    } else if k % 3 == 1 {
                                        write!(ls, "{}", std::hint::black_box(s.as_str()))
                                    } else if k % 3 == 2 {
                                        ls.write_fmt(format_args!("{}{}", std::hint::black_box(""), std::hint::black_box(s.as_str())))
                                    } else {
                                        ls.write_str(&s)
                                    };
                                    if r.is_err() {
                                        return Out::ErrFmt;
                                    }
                                }
                                Out::Ok(String::new())
                            }),
                            guarded(|| {
                                for s in i2 {
                                    or.push_str(&s);
                                }
                                Out::Ok(String::new())
                            }),
                        )
                    } else {
                        let store = i1.items.clone();
                        let kind = item_kind(&store);
                        (
                            guarded(|| {
                                match kind {
                                    1 => ls.extend(RefItems { items: &store, pos: 0 }),
                                    2 => ls.extend(i1.map(|s| s.into_boxed_str())),
                                    3 => ls.extend(store.iter().enumerate().map(|(k, o)| -> std::borrow::Cow<'_, str> {
                                        match o {
                                            Some(s) if k % 2 == 0 => std::borrow::Cow::Borrowed(s.as_str()),
                                            Some(s) => std::borrow::Cow::Owned(s.clone()),
                                            None => panic!("{}", CB_PANIC),
                                        }
                                    })),
                                    4 => ls.extend(i1.map(|s| LeanString::from(s.as_str()))),
                                    _ => ls.extend(i1),
                                };
                                Out::Ok(String::new())
                            }),
                            guarded(|| { or.extend(i2); Out::Ok(String::new()) }),
                        )
                    }
                }
                _ => return None,
            })
        })();
        self.pool[h] = Some(ls);
        self.oracle[h] = Some(or);
        let Some((out, oout)) = res else { return (Out::Bad, vec![]) };
        if base == "add" && matches!(out, Out::PanicAlloc | Out::PanicIdx | Out::PanicCb) {
            // `s + t` takes `s` by value: when the call unwinds the operand is destroyed (its buffer released) and the
            // caller is left without a value -- the handle is gone, as after `drop` (the model does the same)
            self.pool[h] = None;
            self.oracle[h] = None;
            return (out, vec![h]);
        }
        self.compare_with_oracle(t, h, &out, &oout, &pre_oracle, iter_items);
        (out, vec![h])
    }

    /// C01/C05/C07/C18: outcome and text against `String` driven through the same call.
    fn compare_with_oracle(&mut self, t: &[&str], h: usize, out: &Out, oout: &Out, pre: &str, items: Option<Vec<String>>) {
        let got = self.pool[h].as_ref().map(|s| s.as_bytes().to_vec()).unwrap_or_default();
        if out.is_alloc_failure() {
            // the oracle never fails to allocate: the target must hold the old value
            // (iterator-driven operations: old value plus the items consumed so far)
            let ok = match &items {
                None => got == pre.as_bytes(),
                Some(items) => {
                    let mut acc = pre.as_bytes().to_vec();
                    let mut ok = got == acc;
                    for it in items {
                        acc.extend_from_slice(it.as_bytes());
                        ok |= got == acc;
                    }
                    ok
                }
            };
            if !ok {
                self.fail(
                    &["C05", "C06"],
                    format!("`{}` failed to allocate but h{h} changed: before {:?} after {:?}", t.join(" "), pre, String::from_utf8_lossy(&got)),
                );
            }
            // resynchronise the oracle on what the crate kept
            if let Ok(s) = String::from_utf8(got) {
                self.oracle[h] = Some(s);
            }
            return;
        }
        let want = self.oracle[h].clone().unwrap_or_default();
        let idx_ops = ["insert", "insert_str", "remove", "truncate"];
        let base = t[0].strip_prefix("try_").unwrap_or(t[0]);
        // outcome class
        let same_class = match (out, oout) {
            (Out::Ok(a), Out::Ok(b)) => a == b,
            (Out::PanicIdx, Out::PanicIdx) | (Out::PanicIdx, Out::PanicOther(_)) => true,
            (Out::PanicCb, Out::PanicCb) => true,
            _ => false,
        };
        if !same_class {
            let props: &[&'static str] = if idx_ops.contains(&base) && (matches!(out, Out::PanicIdx) != !matches!(oout, Out::Ok(_))) {
                &["C07", "C01"]
            } else if matches!(oout, Out::PanicCb) || matches!(out, Out::PanicCb) {
                &["C18", "C01"]
            } else if self.tgt_was_static {
                // C10: the first write moves a static-backed handle to its own storage *with the correct contents*
                &["C01", "C10"]
            } else {
                &["C01"]
            };
            self.fail(props, format!("`{}` on h{h}: crate returned {} but String returned {}", t.join(" "), out.fmt(), oout.fmt()));
        }
        if got != want.as_bytes() {
            let props: &[&'static str] = match out {
                Out::PanicCb => &["C18", "C01"],
                Out::PanicIdx => &["C07", "C01"],
                _ if self.tgt_was_static => &["C01", "C10"],
                _ => &["C01"],
            };
            self.fail(
                props,
                format!(
                    "after `{}` h{h} reads {:?} but String holds {:?}",
                    t.join(" "),
                    String::from_utf8_lossy(&got),
                    want
                ),
            );
        }
    }

    #[allow(clippy::type_complexity)]
    fn construct(&mut self, base: &str, tryf: bool, t: &[&str]) -> Option<(Out, Option<LeanString>, Option<String>)> {
        let mut val: Option<LeanString> = None;
        let mut orc: Option<String> = None;
        let out = match base {
            "new" => {
                val = Some(LeanString::new());
                orc = Some(String::new());
                Out::Ok(String::new())
            }
            "from" | "from_string" | "from_box" | "from_cow" | "from_ref_string" | "from_unchecked" => {
                let s = unhex_str(t.get(2)?)?;
                orc = Some(s.clone());
                guarded(|| {
                    if tryf {
                        match s.parse::<LeanString>() {
                            Ok(v) => val = Some(v),
                            Err(_) => return Out::Err,
                        }
                    } else {
                        val = Some(match base {
                            "from" => LeanString::from(s.as_str()),
                            "from_string" => {
                                // a String with spare capacity: the conversion must not keep it
                                let mut owned = String::with_capacity(s.len() + 24);
                                owned.push_str(&s);
                                LeanString::from(owned)
                            }
                            "from_ref_string" => LeanString::from(&s),
                            "from_box" => LeanString::from(s.clone().into_boxed_str()),
                            // SAFETY: `s` is a `String`
                            "from_unchecked" => unsafe { LeanString::from_utf8_unchecked(s.as_bytes()) },
                            _ if s.len() % 2 == 0 => {
                                let mut owned = String::with_capacity(s.len() + 40);
                                owned.push_str(&s);
                                LeanString::from(std::borrow::Cow::<str>::Owned(owned))
                            }
                            _ => LeanString::from(std::borrow::Cow::Borrowed(s.as_str())),
                        });
                    }
                    Out::Ok(String::new())
                })
            }
            "from_static" => {
                let sid = Self::num(t.get(2))?;
                let st = self.statics.get(sid)?.text;
                orc = Some(st.to_string());
                guarded(|| {
                    val = Some(LeanString::from_static_str(st));
                    Out::Ok(String::new())
                })
            }
            "with_capacity" => {
                let n = Self::num(t.get(2))?;
                orc = Some(String::new());
                guarded(|| {
                    if tryf {
                        match LeanString::try_with_capacity(n) {
                            Ok(v) => val = Some(v),
                            Err(_) => return Out::Err,
                        }
                    } else {
                        val = Some(LeanString::with_capacity(n));
                    }
                    Out::Ok(String::new())
                })
            }
            "from_char" => {
                let c = unhex_char(t.get(2)?)?;
                orc = Some(c.to_string());
                guarded(|| {
                    val = Some(LeanString::from(c));
                    Out::Ok(String::new())
                })
            }
            "from_bool" => {
                let b = *t.get(2)? == "1";
                orc = Some(b.to_string());
                guarded(|| {
                    val = Some(b.to_lean_string());
                    Out::Ok(String::new())
                })
            }
            "clone" | "from_ref" | "to_ls" => {
                let s = Self::num(t.get(2))?;
                if !self.live(s) {
                    return None;
                }
                orc = self.oracle[s].clone();
                let src = self.pool[s].as_ref().unwrap();
                guarded(|| {
                    val = Some(match base {
                        "clone" => src.clone(),
                        "from_ref" => LeanString::from(src),
                        _ => src.to_lean_string(),
                    });
                    Out::Ok(String::new())
                })
            }
            "collect_chars" => {
                let items = parse_items_chars(t.get(3)?)?;
                let want: String = items.iter().flatten().collect();
                let o = if *t.get(2)? == "exact" {
                    let v: Vec<char> = items.iter().map(|c| *c).collect::<Option<Vec<char>>>()?;
                    guarded(|| {
                        val = Some(if v.len() % 2 == 1 { v.iter().collect::<LeanString>() } else { v.into_iter().collect::<LeanString>() });
                        Out::Ok(String::new())
                    })
                } else {
                    let hint = Self::num(t.get(2))?;
                    let it = Items { items, pos: 0, hint };
                    guarded(|| {
                        val = Some(it.collect::<LeanString>());
                        Out::Ok(String::new())
                    })
                };
                orc = Some(want);
                o
            }
            "collect_strs" => {
                let items = parse_items_strs(t.get(2)?)?;
                let want: String = items.iter().flatten().cloned().collect();
                let it = Items { items, pos: 0, hint: 0 };
                let store = it.items.clone();
                let kind = item_kind(&store);
                let o = guarded(|| {
                    val = Some(match kind {
                        1 => RefItems { items: &store, pos: 0 }.collect::<LeanString>(),
                        2 => it.map(|s| s.into_boxed_str()).collect::<LeanString>(),
                        3 => store.iter().enumerate().map(|(k, o)| -> std::borrow::Cow<'_, str> {
                            match o {
                                Some(s) if k % 2 == 0 => std::borrow::Cow::Borrowed(s.as_str()),
                                Some(s) => std::borrow::Cow::Owned(s.clone()),
                                None => panic!("{}", CB_PANIC),
                            }
                        }).collect::<LeanString>(),
                        4 => it.map(|s| LeanString::from(s.as_str())).collect::<LeanString>(),
                        _ => it.collect::<LeanString>(),
                    });
                    Out::Ok(String::new())
                });
                orc = Some(want);
                o
            }
            "display" => {
                let pieces = parse_pieces(t.get(2)?)?;
                let d = Disp(pieces);
                let o = guarded(|| match d.try_to_lean_string() {
                    Ok(v) => {
                        val = Some(v);
                        Out::Ok(String::new())
                    }
                    Err(lean_string::ToLeanStringError::Fmt(_)) => Out::ErrFmt,
                    Err(lean_string::ToLeanStringError::Reserve(_)) => Out::Err,
                });
                // oracle: String's own ToString panics on a failing Display; emulate with write!
                let mut s = String::new();
                let oo = guarded(|| match write!(s, "{d}") {
                    Ok(()) => Out::Ok(String::new()),
                    Err(_) => Out::ErrFmt,
                });
                if o.class() != oo.class() && !o.is_alloc_failure() {
                    self.fail(&["C15", "C18"], format!("`{}`: crate {} but Display/String {}", t.join(" "), o.fmt(), oo.fmt()));
                }
                orc = Some(s);
                o
            }
            "int" => {
                let ty = *t.get(2)?;
                let v = *t.get(3)?;
                let (o, want) = crate::nums::int_to_ls(ty, v, &mut val)?;
                orc = Some(want);
                o
            }
            "float" => {
                let ty = *t.get(2)?;
                let bits = u64::from_str_radix(t.get(3)?, 16).ok()?;
                let (o, want) = crate::nums::float_to_ls(ty, bits, &mut val)?;
                orc = Some(want);
                o
            }
            "from_utf8" => {
                let b = unhex(t.get(2)?)?;
                let want = String::from_utf8(b.clone());
                let o = guarded(|| match LeanString::from_utf8(&b) {
                    Ok(v) => {
                        val = Some(v);
                        Out::Ok(String::new())
                    }
                    Err(_) => Out::ErrUtf8,
                });
                match (&o, &want) {
                    (Out::Ok(_), Ok(w)) => orc = Some(w.clone()),
                    (Out::ErrUtf8, Err(_)) => {}
                    (o2, _) if o2.is_alloc_failure() || matches!(o2, Out::PanicAlloc) => {}
                    _ => self.fail(&["C16"], format!("from_utf8({}) : crate {} but String::from_utf8 is_ok={}", hex(&b), o.fmt(), want.is_ok())),
                }
                if orc.is_none() {
                    orc = want.ok();
                }
                o
            }
            "from_utf8_lossy" => {
                let b = unhex(t.get(2)?)?;
                orc = Some(String::from_utf8_lossy(&b).into_owned());
                guarded(|| {
                    val = Some(LeanString::from_utf8_lossy(&b));
                    Out::Ok(String::new())
                })
            }
            "from_utf16" | "from_utf16_lossy" => {
                let raw = *t.get(2)?;
                let u: Vec<u16> = if raw == "-" {
                    vec![]
                } else {
                    if raw.len() % 4 != 0 {
                        return None;
                    }
                    (0..raw.len() / 4).map(|i| u16::from_str_radix(&raw[4 * i..4 * i + 4], 16).ok()).collect::<Option<_>>()?
                };
                if base == "from_utf16" {
                    let want = String::from_utf16(&u);
                    let o = guarded(|| match LeanString::from_utf16(&u) {
                        Ok(v) => {
                            val = Some(v);
                            Out::Ok(String::new())
                        }
                        Err(_) => Out::ErrUtf16,
                    });
                    match (&o, &want) {
                        (Out::Ok(_), Ok(w)) => orc = Some(w.clone()),
                        (Out::ErrUtf16, Err(_)) => {}
                        (o2, _) if o2.is_alloc_failure() => {}
                        _ => self.fail(&["C16"], format!("from_utf16({raw}) : crate {} but String::from_utf16 is_ok={}", o.fmt(), want.is_ok())),
                    }
                    if orc.is_none() {
                        orc = want.ok();
                    }
                    o
                } else {
                    orc = Some(String::from_utf16_lossy(&u));
                    guarded(|| {
                        val = Some(LeanString::from_utf16_lossy(&u));
                        Out::Ok(String::new())
                    })
                }
            }
            _ => return None,
        };
        // constructed value against the oracle
        if let (Some(v), Some(w)) = (&val, &orc) {
            if v.as_bytes() != w.as_bytes() {
                let props: &[&'static str] = match base {
                    "int" => &["C14"],
                    "float" | "display" | "from_bool" => &["C15"],
                    "from_utf8" | "from_utf8_lossy" | "from_utf16" | "from_utf16_lossy" => &["C16"],
                    "from_unchecked" => &["C16", "C01"],
                    "clone" | "from_ref" | "to_ls" => &["C08", "C01"],
                    "from_char" if t[0] == "from_char" => &["C01", "C15"],
                    _ => &["C01"],
                };
                if base != "float" {
                    self.fail(props, format!("`{}` produced {:?} but the std counterpart gives {:?}", t.join(" "), String::from_utf8_lossy(v.as_bytes()), w));
                }
            }
        }
        if val.is_none() {
            orc = None;
        }
        Some((out, val, orc))
    }

    // ------------------------------------------------------------------------------------------
    // monitors evaluated on (before, after, events)
    // ------------------------------------------------------------------------------------------
    fn monitors(
        &mut self,
        t: &[&str],
        out: &Out,
        targets: &[usize],
        before: &[Option<HandleObs>],
        after: &[Option<HandleObs>],
        events: &[Ev],
    ) {
        let opline = t.join(" ");
        let base = t[0].strip_prefix("try_").unwrap_or(t[0]);
        let tgt = targets.first().copied();
        let b_t = tgt.and_then(|h| before.get(h).cloned().flatten());
        let a_t = tgt.and_then(|h| after.get(h).cloned().flatten());
        let requests: Vec<&Ev> = events.iter().filter(|e| e.is_request()).collect();
        let refusals = events.iter().filter(|e| e.is_refusal()).count();

        // coverage matrix
        {
            let k = b_t.as_ref().map(|b| b.kind).unwrap_or('-');
            let sh = match b_t.as_ref().and_then(|b| b.rc) {
                Some(1) => "u",
                Some(_) => "s",
                None => "-",
            };
            let k2 = a_t.as_ref().map(|b| b.kind).unwrap_or('-');
            *self.stats.matrix.entry(format!("{base}/{k}{sh}/{}/{k2}", out.class())).or_insert(0) += 1;
            if k != k2 || sh == "s" || out.class() != "ok" {
                self.case_nontrivial = true;
            }
        }

        // C02 frame: every non-target handle keeps pointer, length and bytes
        for (i, (b, a)) in before.iter().zip(after.iter()).enumerate() {
            if targets.contains(&i) {
                continue;
            }
            match (b, a) {
                (Some(b), Some(a)) => {
                    if b.text != a.text || b.len != a.len || b.ptr != a.ptr || b.kind != a.kind {
                        self.fail(
                            &["C02"],
                            format!(
                                "`{opline}` changed the other handle h{i}: {} -> {}",
                                b.fmt(i),
                                a.fmt(i)
                            ),
                        );
                    }
                    if let Some(o) = self.oracle[i].clone() {
                        if a.text != o.as_bytes() {
                            self.fail(&["C02", "C01"], format!("after `{opline}` the other handle h{i} reads {:?}, its String model holds {:?}", String::from_utf8_lossy(&a.text), o));
                        }
                    }
                }
                (None, None) => {}
                _ => self.fail(&["C02", "C20"], format!("`{opline}` made the other handle h{i} appear or vanish")),
            }
        }

        // C03 counts: reference count == live handles on that block; no orphan block
        {
            let mut groups: HashMap<String, (usize, Option<usize>)> = HashMap::new();
            for a in after.iter().flatten() {
                if a.kind == 'H' {
                    let e = groups.entry(a.ptr.clone()).or_insert((0, a.rc));
                    e.0 += 1;
                }
            }
            let mut bad = vec![];
            for (p, (n, rc)) in &groups {
                if *rc != Some(*n) {
                    bad.push(format!("{p}: reference count {:?} but {n} live handle(s)", rc));
                }
                if p == "?" || p.contains('+') {
                    bad.push(format!("heap handle points to {p}, not to the start of a live block"));
                }
            }
            let (live, errs) = shadow::with(|sh| (sh.live_blocks(), std::mem::take(&mut sh.errors)));
            if live != groups.len() {
                bad.push(format!("{live} live heap block(s) but handles reference {} distinct block(s)", groups.len()));
            }
            for p in groups.keys() {
                if let Some(id) = p.strip_prefix('B').and_then(|x| x.parse::<usize>().ok()) {
                    let is_live = shadow::with(|sh| sh.blocks.get(id).map(|b| b.live).unwrap_or(false));
                    if !is_live {
                        bad.push(format!("a live handle points into released block {p}"));
                    }
                }
            }
            let mut props: Vec<&'static str> = vec!["C03"];
            if out.is_alloc_failure() || refusals > 0 {
                props.push("C05");
                props.push("C06");
            }
            if matches!(out, Out::PanicCb) {
                props.push("C18");
            }
            for b in bad {
                self.fail(&props, format!("after `{opline}` ({}): {b}", out.fmt()));
            }
            for e in errs {
                let mut p = props.clone();
                if e.contains("in-place write") {
                    p.push("C02");
                }
                self.fail(&p, format!("after `{opline}` ({}): shadow heap: {e}", out.fmt()));
            }
        }

        // C05/C06: a failure must be explained by a refusal or by a size the crate cannot represent
        if out.is_alloc_failure() {
            let size_arg = match base {
                "with_capacity" | "reserve" | "shrink_to" | "extend_chars" | "collect_chars" => t.get(2).and_then(|x| x.parse::<u128>().ok()),
                _ => None,
            };
            let cur_len = b_t.as_ref().map(|b| b.len as u128).unwrap_or(0);
            let too_big = size_arg.map(|n| n + cur_len >= (1u128 << 56) - 1).unwrap_or(false);
            if refusals == 0 && !too_big {
                // no request at all: the "failure" comes out of the representation itself (a reachable value whose
                // two words collide with the niche that encodes `Err`/`None`) -- C20; and `String` does not fail -- C01
                let props: &[&'static str] = if requests.is_empty() { &["C05", "C06", "C01", "C20"] } else { &["C05", "C06", "C01"] };
                self.fail(props, format!("`{opline}` reported an allocation failure although no request was refused"));
            }
            let want_err = t[0].starts_with("try_");
            if want_err != matches!(out, Out::Err) && !matches!(base, "display") {
                self.fail(&["C05"], format!("`{opline}`: wrong failure form {}", out.fmt()));
            }
        } else if refusals > 0 && !matches!(base, "extend_chars" | "collect_chars") {
            // a refusal was swallowed (only the size-hint reservation may ignore one)
            self.fail(&["C05"], format!("`{opline}` returned {} although a request was refused", out.fmt()));
        }
        // C05/C06: an all-or-nothing operation that reports a failure leaves its target exactly as
        // it was: same storage, same capacity, same pointer (not only the same text)
        if out.is_alloc_failure()
            && matches!(base, "reserve" | "shrink_to" | "shrink_to_fit" | "push" | "push_str" | "insert" | "insert_str" | "remove" | "retain" | "add_assign")
        {
            if let (Some(b), Some(a)) = (&b_t, &a_t) {
                if b.kind != a.kind || b.cap != a.cap || b.ptr != a.ptr || b.len != a.len || b.addr != a.addr {
                    self.fail(&["C05", "C06"], format!("`{opline}` failed ({}) but changed its target: {} -> {}", out.fmt(), b.fmt(0), a.fmt(0)));
                }
            }
        }
        if let Out::PanicOther(m) = out {
            self.fail(&["C01", "C06"], format!("`{opline}` panicked with an unexpected message: {m}"));
        }

        // C07: a rejected index changes nothing at all
        if matches!(out, Out::PanicIdx) {
            if before != after || !events.is_empty() {
                self.fail(&["C07"], format!("`{opline}` panicked on its index but had an effect (events {:?})", events.iter().map(|e| e.fmt()).collect::<Vec<_>>()));
            }
        }
        // C07: bytes valid UTF-8 at all times
        for (i, a) in after.iter().enumerate() {
            if let Some(a) = a {
                if std::str::from_utf8(&a.text).is_err() {
                    self.fail(&["C07", "C01"], format!("after `{opline}` h{i} holds invalid UTF-8: {}", hex(&a.text)));
                }
                // C11 (a)
                if a.cap < a.len {
                    self.fail(&["C11"], format!("after `{opline}` h{i} reports capacity {} < len {}", a.cap, a.len));
                }
                // C06/C05/C03: a heap handle's allocation really holds header + reported capacity
                if a.kind == 'H' {
                    match shadow::with(|sh| sh.block_of_text(a.addr)) {
                        Some((b, size)) => {
                            if size < 16usize.saturating_add(a.cap) {
                                self.fail(&["C06", "C05", "C03", "C11"], format!("after `{opline}` h{i} reports capacity {} but its allocation B{b} holds only {size} bytes (header included)", a.cap));
                            }
                        }
                        None => self.fail(&["C06", "C05", "C03"], format!("after `{opline}` heap handle h{i} (capacity {}) does not point into a live allocation", a.cap)),
                    }
                }
                // C20 niche: the discriminating byte is a declared LastByte value
                if let Some(s) = self.pool[i].as_ref() {
                    let lb = verif_hooks::last_byte(s);
                    if lb > 0xD1 {
                        self.fail(&["C20"], format!("after `{opline}` h{i} has last byte {lb:#x}, inside the niche reserved for Option"));
                    }
                }
            }
        }
        // C10: static texts are never written
        let modified: Vec<usize> =
            self.statics.iter().enumerate().filter(|(_, st)| st.text.as_bytes() != &st.pristine[..]).map(|(k, _)| k).collect();
        for k in modified {
            self.fail(&["C10"], format!("after `{opline}` the static text S{k} was modified"));
        }

        let ok = matches!(out, Out::Ok(_));
        // C08: cloning never allocates, never copies to the heap, shares the bytes
        if matches!(base, "clone" | "from_ref" | "to_ls" | "clone_from") && ok {
            let src = t.get(2).and_then(|x| x.parse::<usize>().ok()).and_then(|s| after.get(s).cloned().flatten());
            // C10: a copy of a handle that borrows a static text keeps borrowing it, without allocating
            let props: &[&'static str] = if src.as_ref().map(|s| s.kind == 'S').unwrap_or(false) { &["C08", "C10"] } else { &["C08"] };
            if !requests.is_empty() {
                self.fail(props, format!("`{opline}` issued allocator requests {:?}", events.iter().map(|e| e.fmt()).collect::<Vec<_>>()));
            }
            if let (Some(s), Some(d)) = (&src, &a_t) {
                let same = if s.kind == 'I' { d.kind == 'I' && d.ptr == "self" } else { s.ptr == d.ptr && s.kind == d.kind && s.addr == d.addr };
                if !same || s.text != d.text || s.len != d.len {
                    self.fail(props, format!("`{opline}`: copy {} does not share/equal source {}", d.fmt(0), s.fmt(0)));
                }
            }
        }

        // C09: texts of at most 16 bytes never touch the heap; longer ones allocate once, exactly
        let is_text_ctor = matches!(
            base,
            "from" | "from_string" | "from_box" | "from_cow" | "from_ref_string" | "from_unchecked" | "from_char" | "from_bool" | "int" | "from_static" | "new"
        );
        if is_text_ctor && ok {
            if let Some(a) = &a_t {
                if a.len <= 16 {
                    if a.kind != 'I' || !events.is_empty() {
                        self.fail(&["C09"], format!("`{opline}` built a {}-byte text with kind {} and events {:?}", a.len, a.kind, events.iter().map(|e| e.fmt()).collect::<Vec<_>>()));
                    }
                } else if base != "from_static" && base != "int" {
                    if events != [Ev::Alloc(16 + a.len)] || a.cap != a.len || a.kind != 'H' {
                        self.fail(&["C09"], format!("`{opline}` built a {}-byte text with kind {} capacity {} events {:?} (want exactly one allocation of the exact size)", a.len, a.kind, a.cap, events.iter().map(|e| e.fmt()).collect::<Vec<_>>()));
                    }
                }
            }
        }
        if base == "with_capacity" && ok {
            if let (Some(a), Some(n)) = (&a_t, t.get(2).and_then(|x| x.parse::<usize>().ok())) {
                if n <= 16 && (a.kind != 'I' || !events.is_empty()) {
                    self.fail(&["C09"], format!("`{opline}` (capacity within the inline size) touched the heap: kind {} events {:?}", a.kind, events.iter().map(|e| e.fmt()).collect::<Vec<_>>()));
                }
            }
        }
        let inline_edit = matches!(base, "push" | "push_str" | "insert" | "insert_str" | "pop" | "remove" | "retain" | "truncate" | "clear" | "add_assign");
        if inline_edit && !out.is_alloc_failure() {
            if let (Some(b), Some(a)) = (&b_t, &a_t) {
                if b.kind == 'I' && a.len <= 16 && (a.kind != 'I' || !events.is_empty()) {
                    self.fail(&["C09"], format!("`{opline}` on an inline string, result {} bytes: kind {} events {:?}", a.len, a.kind, events.iter().map(|e| e.fmt()).collect::<Vec<_>>()));
                }
            }
        }

        // C10: static strings stay borrowed under clone/pop/truncate/clear; never allocate there
        if base == "from_static" && ok {
            if let Some(a) = &a_t {
                if !events.is_empty() {
                    self.fail(&["C10"], format!("`{opline}` touched the allocator"));
                }
                if a.len > 16 && (a.kind != 'S' || !a.ptr.starts_with('S')) {
                    self.fail(&["C10"], format!("`{opline}`: a long static text is not borrowed: {}", a.fmt(0)));
                }
            }
        }
        // neither writes nor grows: `shrink_to` / `shrink_to_fit` belong here too (the model leaves a static handle alone)
        if matches!(base, "pop" | "truncate" | "clear" | "shrink_to" | "shrink_to_fit") || (matches!(base, "clone" | "from_ref" | "to_ls")) {
            let src = if matches!(base, "clone" | "from_ref" | "to_ls") {
                t.get(2).and_then(|x| x.parse::<usize>().ok()).and_then(|s| before.get(s).cloned().flatten())
            } else {
                b_t.clone()
            };
            if let (Some(b), Some(a)) = (&src, &a_t) {
                if b.kind == 'S' && !matches!(out, Out::PanicIdx) {
                    if a.kind != 'S' || a.addr != b.addr || !events.is_empty() {
                        self.fail(&["C10"], format!("`{opline}` on a static string: {} -> {} events {:?}", b.fmt(0), a.fmt(0), events.iter().map(|e| e.fmt()).collect::<Vec<_>>()));
                    }
                }
            }
        }
        // C10: the first write moves a static handle to its own storage
        if matches!(base, "push" | "push_str" | "insert" | "insert_str" | "remove" | "retain" | "reserve" | "add_assign" | "extend_chars" | "extend_strs" | "write") && ok {
            if let (Some(b), Some(a)) = (&b_t, &a_t) {
                let noop = matches!(base, "push_str" | "add_assign") && t.get(2) == Some(&"-")
                    || matches!(base, "extend_strs" | "write" | "extend_chars") && a.text == b.text;
                if b.kind == 'S' && a.kind == 'S' && !noop {
                    self.fail(&["C10"], format!("`{opline}` left the handle on the borrowed static text: {}", a.fmt(0)));
                }
            }
        }

        // C11 (b),(c),(d)
        if base == "with_capacity" && ok {
            if let (Some(a), Some(n)) = (&a_t, t.get(2).and_then(|x| x.parse::<usize>().ok())) {
                if a.cap < n {
                    self.fail(&["C11", "C06"], format!("`{opline}`: capacity {} < {n}", a.cap));
                }
            }
        }
        if base == "reserve" && ok {
            if let (Some(b), Some(a), Some(n)) = (&b_t, &a_t, t.get(2).and_then(|x| x.parse::<usize>().ok())) {
                if (a.cap as u128) < a.len as u128 + n as u128 {
                    // the documented postcondition of a successful reserve (C06: "succeed with their documented postcondition")
                    self.fail(&["C11", "C06"], format!("`{opline}`: capacity {} < len {} + {n}", a.cap, a.len));
                }
                if a.kind == 'S' || (a.kind == 'H' && a.rc != Some(1)) {
                    self.fail(&["C11"], format!("`{opline}`: storage not exclusively owned afterwards: {}", a.fmt(0)));
                }
                if a.text != b.text {
                    self.fail(&["C01"], format!("`{opline}` changed the text"));
                }
            }
        }
        // every appending entry point: `write` (write_str / write! / write_char), `extend` with string items and the by-value
        // `+` included (`extend_chars` may legitimately reserve for its size hint and is left out)
        if matches!(base, "push" | "push_str" | "insert" | "insert_str" | "add_assign" | "add" | "write" | "extend_strs") && ok {
            if let (Some(b), Some(a)) = (&b_t, &a_t) {
                let owned = b.kind == 'I' || (b.kind == 'H' && b.rc == Some(1));
                if owned && a.len <= b.cap {
                    let moved = if b.kind == 'I' { a.kind != 'I' } else { a.ptr != b.ptr || a.addr != b.addr };
                    if !requests.is_empty() || moved {
                        self.fail(&["C11"], format!("`{opline}` fits the reported capacity {} but events {:?}, {} -> {}", b.cap, events.iter().map(|e| e.fmt()).collect::<Vec<_>>(), b.fmt(0), a.fmt(0)));
                    }
                }
            }
        }

        // C12: growth events
        if matches!(base, "push" | "push_str" | "insert" | "insert_str" | "add_assign" | "reserve") && ok {
            if let (Some(b), Some(a)) = (&b_t, &a_t) {
                let grew = events.iter().any(|e| matches!(e, Ev::Alloc(_) | Ev::Realloc(..))) && a.kind == 'H';
                if grew {
                    let add: u128 = if base == "reserve" { t.get(2).and_then(|x| x.parse::<u128>().ok()).unwrap_or(0) } else { (a.len - b.len) as u128 };
                    let l = b.len as u128;
                    let lo = l + l / 2;
                    let hi = (l * 3 / 2).max(l + add);
                    // copying out of a shared buffer into exactly enough room is not an outgrowing
                    let outgrew = (l + add) > b.cap as u128 || b.kind != 'H';
                    if outgrew && ((a.cap as u128) < lo || (a.cap as u128) > hi) {
                        self.fail(&["C12"], format!("`{opline}`: growth from len {l} (+{add}) to capacity {} outside [{lo}, {hi}]", a.cap));
                    }
                }
            }
        }

        // C13: shrinking
        if matches!(base, "shrink_to" | "shrink_to_fit") && !out.is_alloc_failure() {
            if let (Some(b), Some(a)) = (&b_t, &a_t) {
                let m: u128 = if base == "shrink_to" { t.get(2).and_then(|x| x.parse::<u128>().ok()).unwrap_or(0) } else { 0 };
                let mut bad = vec![];
                if a.text != b.text {
                    bad.push("text changed".to_string());
                }
                if a.cap > b.cap.max(16) {
                    bad.push(format!("capacity grew {} -> {}", b.cap, a.cap));
                }
                if a.cap < a.len {
                    bad.push("capacity below len".into());
                }
                if (a.cap as u128) < m && a.cap != b.cap {
                    bad.push(format!("capacity {} below the requested minimum {m} (was {})", a.cap, b.cap));
                }
                if b.kind == 'H' {
                    let want = (b.len as u128).max(m);
                    if (b.cap as u128) > want {
                        if want <= 16 {
                            if a.kind != 'I' {
                                bad.push(format!("max(len, m) = {want} fits inline but the result is {}", a.kind));
                            }
                        } else if a.cap as u128 != want {
                            bad.push(format!("capacity {} != max(len, m) = {want} (was {}, shared={})", a.cap, b.cap, b.rc != Some(1)));
                        }
                    }
                } else if a != b {
                    bad.push("a non-heap target was changed".into());
                }
                for m in bad {
                    self.fail(&["C13"], format!("`{opline}`: {m}"));
                }
            }
        }
    }
}
