//! C14/C15: `to_lean_string` on numbers against `to_string` / `parse`.
use crate::exec::Out;
use lean_string::{LeanString, ToLeanString};
use std::num::NonZero;
use std::panic::{AssertUnwindSafe, catch_unwind};

fn run<T: ToLeanString + ToString>(v: T, val: &mut Option<LeanString>) -> (Out, String) {
    let want = v.to_string();
    let o = match catch_unwind(AssertUnwindSafe(|| v.try_to_lean_string())) {
        Ok(Ok(s)) => {
            *val = Some(s);
            Out::Ok(String::new())
        }
        Ok(Err(_)) => Out::Err,
        Err(_) => Out::PanicOther("to_lean_string panicked".into()),
    };
    (o, want)
}

pub fn int_to_ls(ty: &str, v: &str, val: &mut Option<LeanString>) -> Option<(Out, String)> {
    macro_rules! arm {
        ($($name:literal => $t:ty),*) => {
            match ty {
                $($name => Some(run(v.parse::<$t>().ok()?, val)),)*
                $(concat!("nz_", $name) => Some(run(NonZero::new(v.parse::<$t>().ok()?)?, val)),)*
                _ => None,
            }
        };
    }
    arm!("u8" => u8, "i8" => i8, "u16" => u16, "i16" => i16, "u32" => u32, "i32" => i32, "u64" => u64,
         "i64" => i64, "u128" => u128, "i128" => i128, "usize" => usize, "isize" => isize)
}

pub fn float_to_ls(ty: &str, bits: u64, val: &mut Option<LeanString>) -> Option<(Out, String)> {
    match ty {
        "f32" => Some(run(f32::from_bits(bits as u32), val)),
        "f64" => Some(run(f64::from_bits(bits), val)),
        _ => None,
    }
}

/// Round-trip oracle for floats: the text parses back to the identical value.
pub fn float_roundtrip_f32(bits: u32) -> Result<(), String> {
    let x = f32::from_bits(bits);
    let s = x.to_lean_string();
    match s.as_str().parse::<f32>() {
        Ok(y) if (x.is_nan() && y.is_nan()) || y.to_bits() == x.to_bits() => Ok(()),
        other => Err(format!("f32 bits {bits:#010x}: text {:?} parses to {:?}", s.as_str(), other.map(|y| y.to_bits()))),
    }
}
pub fn float_roundtrip_f64(bits: u64) -> Result<(), String> {
    let x = f64::from_bits(bits);
    let s = x.to_lean_string();
    match s.as_str().parse::<f64>() {
        Ok(y) if (x.is_nan() && y.is_nan()) || y.to_bits() == x.to_bits() => Ok(()),
        other => Err(format!("f64 bits {bits:#018x}: text {:?} parses to {:?}", s.as_str(), other.map(|y| y.to_bits()))),
    }
}
