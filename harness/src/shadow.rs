//! Shadow heap installed through the crate's `verif-hooks` allocator table.
//!
//! Every block the crate requests is placed between two guard zones, pre-filled with the junk
//! value the Lean model uses for unwritten bytes (0xA5), recorded with its layout, numbered in
//! allocation order, and on release checked (layout equality, guards), poisoned (0xDD) and
//! quarantined (never reused before `reset`). `realloc` always moves. Requests are numbered;
//! a request whose index is in `faults` or whose size exceeds `limit` is refused.

use lean_string::verif_hooks::{self, AccessTable, AllocTable};
use std::alloc::{GlobalAlloc, Layout, System};
use std::collections::BTreeSet;
use std::sync::Mutex;

pub const GUARD: usize = 64;
pub const CANARY: u8 = 0xCA;
pub const JUNK: u8 = 0xA5;
pub const POISON: u8 = 0xDD;
pub const DEFAULT_LIMIT: usize = 1 << 20;

#[derive(Clone, Debug, PartialEq, Eq)]
pub enum Ev {
    Alloc(usize),
    AllocRefused(usize),
    Realloc(usize, usize),
    ReallocRefused(usize, usize),
    Free(usize),
}

impl Ev {
    pub fn fmt(&self) -> String {
        match self {
            Ev::Alloc(s) => format!("A{s}"),
            Ev::AllocRefused(s) => format!("X{s}"),
            Ev::Realloc(o, n) => format!("R{o}>{n}"),
            Ev::ReallocRefused(o, n) => format!("Y{o}>{n}"),
            Ev::Free(s) => format!("F{s}"),
        }
    }
    pub fn is_request(&self) -> bool {
        !matches!(self, Ev::Free(_))
    }
    pub fn is_refusal(&self) -> bool {
        matches!(self, Ev::AllocRefused(_) | Ev::ReallocRefused(..))
    }
}

pub struct Block {
    pub base: usize, // real allocation start (guard included)
    pub user: usize, // address handed to the crate
    pub size: usize,
    pub align: usize,
    pub live: bool,
}

pub struct Shadow {
    pub blocks: Vec<Block>,
    pub reqs: u64,
    pub faults: BTreeSet<u64>,
    pub limit: usize,
    pub events: Vec<Ev>,
    pub errors: Vec<String>,
    pub total_reqs: u64,
    /// access notes seen (reads/writes of heap text reported by the crate)
    pub notes: u64,
}

unsafe impl Send for Shadow {}

pub static SHADOW: Mutex<Shadow> = Mutex::new(Shadow {
    blocks: Vec::new(),
    reqs: 0,
    faults: BTreeSet::new(),
    limit: DEFAULT_LIMIT,
    events: Vec::new(),
    errors: Vec::new(),
    total_reqs: 0,
    notes: 0,
});

fn lock() -> std::sync::MutexGuard<'static, Shadow> {
    match SHADOW.lock() {
        Ok(g) => g,
        Err(p) => p.into_inner(),
    }
}

static TABLE: AllocTable = AllocTable { alloc: sh_alloc, dealloc: sh_dealloc, realloc: sh_realloc };
static ACCESS: AccessTable = AccessTable { note: sh_note };

thread_local! {
    /// set while this thread is inside `with` (harness code inspecting the shadow heap may call
    /// `as_str()` on a handle, which reports an access note: that note is the harness's, not the crate's)
    static IN_WITH: std::cell::Cell<bool> = const { std::cell::Cell::new(false) };
}

/// The crate starts to read (`NOTE_READ_TEXT`) or to write (`NOTE_WRITE_TEXT`) the text of a heap
/// buffer: the buffer must be live, and a write needs the reference count to be exactly 1.
fn sh_note(kind: u8, ptr: *const u8) {
    if IN_WITH.with(|f| f.get()) {
        return;
    }
    let mut s = lock();
    s.notes += 1;
    match s.locate(ptr as usize) {
        Some((i, _, false)) => {
            let what = if kind == verif_hooks::NOTE_WRITE_TEXT { "write to" } else { "read of" };
            if s.errors.len() < 20 {
                s.errors.push(format!("{what} the text of block B{i} after its release (use after free)"));
            }
        }
        Some((i, _, true)) if kind == verif_hooks::NOTE_WRITE_TEXT => {
            // header = { count, capacity } at the start of the allocation
            let count = unsafe { std::ptr::read_volatile(s.blocks[i].user as *const usize) };
            if count != 1 && s.errors.len() < 20 {
                s.errors.push(format!("in-place write access to block B{i} while its reference count is {count} (another handle can read it)"));
            }
        }
        _ => {}
    }
}

pub fn install() {
    {
        let mut s = lock();
        s.faults = BTreeSet::new();
    }
    verif_hooks::install(Some(&TABLE));
    verif_hooks::install_access(Some(&ACCESS));
}

impl Shadow {
    fn real_alloc(&mut self, size: usize, align: usize) -> usize {
        let total = size + 2 * GUARD;
        let lay = Layout::from_size_align(total, 16).unwrap();
        let base = unsafe { System.alloc(lay) };
        assert!(!base.is_null(), "harness: system allocator refused {total} bytes");
        unsafe {
            std::ptr::write_bytes(base, CANARY, GUARD);
            std::ptr::write_bytes(base.add(GUARD), JUNK, size);
            std::ptr::write_bytes(base.add(GUARD + size), CANARY, GUARD);
        }
        let user = base as usize + GUARD;
        self.blocks.push(Block { base: base as usize, user, size, align, live: true });
        user
    }

    fn find(&self, user: usize) -> Option<usize> {
        self.blocks.iter().rposition(|b| b.user == user)
    }

    pub fn check_guards(&mut self, i: usize) {
        let b = &self.blocks[i];
        let mut bad = false;
        unsafe {
            let base = b.base as *const u8;
            for k in 0..GUARD {
                if *base.add(k) != CANARY || *base.add(GUARD + b.size + k) != CANARY {
                    bad = true;
                    break;
                }
            }
        }
        if bad {
            self.errors.push(format!("guard zone of block B{i} (size {}) damaged: out-of-bounds write", b.size));
        }
    }

    fn release(&mut self, i: usize, size: usize, align: usize, what: &str) -> bool {
        if !self.blocks[i].live {
            self.errors.push(format!("{what} of block B{i} which is already released (double free)"));
            return false;
        }
        if self.blocks[i].size != size || self.blocks[i].align != align {
            self.errors.push(format!(
                "{what} of block B{i} with layout size={size} align={align}, but it was allocated with size={} align={}",
                self.blocks[i].size, self.blocks[i].align
            ));
        }
        self.check_guards(i);
        let b = &mut self.blocks[i];
        b.live = false;
        unsafe { std::ptr::write_bytes(b.user as *mut u8, POISON, b.size) };
        true
    }

    /// Which block (id, offset) contains the address, if any.
    pub fn locate(&self, addr: usize) -> Option<(usize, usize, bool)> {
        for (i, b) in self.blocks.iter().enumerate().rev() {
            if addr >= b.user && addr <= b.user + b.size {
                return Some((i, addr - b.user, b.live));
            }
        }
        None
    }

    /// The live block whose text area (after the 16-byte header) starts at `addr`, whatever its size.
    pub fn block_of_text(&self, addr: usize) -> Option<(usize, usize)> {
        self.blocks.iter().enumerate().rev().find(|(_, b)| b.live && b.user + 16 == addr).map(|(i, b)| (i, b.size))
    }

    pub fn live_blocks(&self) -> usize {
        self.blocks.iter().filter(|b| b.live).count()
    }

    /// End-of-case audit: poison of released blocks intact, guards intact; then free everything.
    pub fn reset(&mut self) {
        for i in 0..self.blocks.len() {
            self.check_guards(i);
            let b = &self.blocks[i];
            if !b.live {
                let mut bad = false;
                unsafe {
                    let p = b.user as *const u8;
                    for k in 0..b.size {
                        if *p.add(k) != POISON {
                            bad = true;
                            break;
                        }
                    }
                }
                if bad {
                    self.errors.push(format!("released block B{i} was written after its release"));
                }
            }
        }
        for b in self.blocks.drain(..) {
            let lay = Layout::from_size_align(b.size + 2 * GUARD, 16).unwrap();
            unsafe { System.dealloc(b.base as *mut u8, lay) };
        }
        self.total_reqs += self.reqs;
        self.reqs = 0;
        self.faults.clear();
        self.limit = DEFAULT_LIMIT;
        self.events.clear();
    }
}

fn refuse(s: &mut Shadow, size: usize) -> bool {
    let idx = s.reqs;
    s.reqs += 1;
    s.faults.remove(&idx) || size > s.limit
}

unsafe fn sh_alloc(layout: Layout) -> *mut u8 {
    let mut s = lock();
    if refuse(&mut s, layout.size()) {
        s.events.push(Ev::AllocRefused(layout.size()));
        return std::ptr::null_mut();
    }
    s.events.push(Ev::Alloc(layout.size()));
    s.real_alloc(layout.size(), layout.align()) as *mut u8
}

unsafe fn sh_dealloc(ptr: *mut u8, layout: Layout) {
    let mut s = lock();
    s.events.push(Ev::Free(layout.size()));
    match s.find(ptr as usize) {
        Some(i) => {
            s.release(i, layout.size(), layout.align(), "dealloc");
        }
        None => s.errors.push(format!("dealloc of an address that is not a block start ({:#x})", ptr as usize)),
    }
}

unsafe fn sh_realloc(ptr: *mut u8, layout: Layout, new_size: usize) -> *mut u8 {
    let mut s = lock();
    if refuse(&mut s, new_size) {
        s.events.push(Ev::ReallocRefused(layout.size(), new_size));
        return std::ptr::null_mut();
    }
    s.events.push(Ev::Realloc(layout.size(), new_size));
    let Some(i) = s.find(ptr as usize) else {
        s.errors.push(format!("realloc of an address that is not a block start ({:#x})", ptr as usize));
        return std::ptr::null_mut();
    };
    if !s.blocks[i].live {
        s.errors.push(format!("realloc of block B{i} which is already released"));
        return std::ptr::null_mut();
    }
    let old_size = s.blocks[i].size;
    let new_user = s.real_alloc(new_size, layout.align());
    unsafe {
        std::ptr::copy_nonoverlapping(ptr as *const u8, new_user as *mut u8, old_size.min(new_size));
    }
    s.release(i, layout.size(), layout.align(), "realloc");
    new_user as *mut u8
}

pub fn with<R>(f: impl FnOnce(&mut Shadow) -> R) -> R {
    let mut s = lock();
    let prev = IN_WITH.with(|c| c.replace(true));
    let r = f(&mut s);
    IN_WITH.with(|c| c.set(prev));
    r
}
