//! C17 (comparison / hash / format traits) and C19 (serde / arbitrary) oracle sweeps.
use crate::Sink;
use crate::exec::hex;
use crate::gn::{self, Rng};
use lean_string::LeanString;
use std::borrow::{Borrow, Cow};
use std::collections::{BTreeMap, HashMap};
use std::hash::{Hash, Hasher};

fn leak(s: String) -> &'static str {
    Box::leak(s.into_boxed_str())
}

/// the same text held in every storage shape; clones kept alive in `keep`
pub fn representations(t: &str, keep: &mut Vec<LeanString>) -> Vec<(&'static str, LeanString)> {
    let mut v: Vec<(&'static str, LeanString)> = vec![];
    v.push(("from", LeanString::from(t)));
    let mut a = LeanString::from(format!("{t}x").as_str());
    a.pop();
    v.push(("after-pop", a));
    let mut b = LeanString::with_capacity(t.len() + 50);
    b.push_str(t);
    v.push(("over-allocated", b.clone()));
    keep.push(b); // shared
    let mut c = LeanString::from(format!("{t}STALE TAIL BYTES BEHIND THE END").as_str());
    let c2 = c.clone();
    c.truncate(t.len());
    v.push(("truncated-shared-stale-tail", c));
    keep.push(c2);
    let mut d = LeanString::from(format!("{t}ANOTHER STALE TAIL, UNIQUE").as_str());
    d.truncate(t.len());
    v.push(("truncated-unique-stale-tail", d));
    v.push(("static", LeanString::from_static_str(leak(t.to_string()))));
    let mut e = LeanString::from_static_str(leak(format!("{t}static tail beyond sixteen bytes")));
    e.truncate(t.len());
    v.push(("static-truncated", e));
    let mut f = LeanString::new();
    for ch in t.chars() {
        f.push(ch);
    }
    v.push(("pushed-char-by-char", f));
    let mut g = LeanString::from(t);
    g.reserve(100);
    g.shrink_to(t.len() + 3);
    v.push(("reserved-then-shrunk", g));
    v
}

fn hash_of<T: Hash + ?Sized>(x: &T) -> u64 {
    let mut h = std::collections::hash_map::DefaultHasher::new();
    x.hash(&mut h);
    h.finish()
}

/// C15/C14: `to_lean_string()` and `try_to_lean_string()` against `to_string()` for one value of every type the
/// `match_type!` dispatch names, of the types that look like them but take the generic `Display` route (`&str`,
/// `Cow<str>`, `Box<str>`, references to the named types), and of std types with their own `Display`
pub fn to_lean_string_types(sink: &mut Sink) -> u64 {
    use lean_string::ToLeanString;
    use std::num::NonZero;
    let mut evals = 0u64;
    macro_rules! same {
        ($($v:expr),* $(,)?) => {$({
            let v = $v;
            evals += 2;
            let want = v.to_string();
            let a = v.to_lean_string();
            let b = v.try_to_lean_string().map(|s| s.as_str().to_string()).unwrap_or_else(|e| format!("Err({e:?})"));
            if a.as_str() != want || b != want {
                sink.fail(&["C15", "C14"], format!("{}: to_lean_string {:?}, try_to_lean_string {:?}, to_string {:?}", stringify!($v), a.as_str(), b, want));
            }
        })*};
    }
    let ls_long = LeanString::from("a LeanString longer than sixteen bytes");
    let string = String::from("a String, seventeen+");
    same!(
        i8::MIN, i8::MAX, 0u8, u8::MAX, i16::MIN, u16::MAX, i32::MIN, u32::MAX, i64::MIN, i64::MAX, u64::MAX, i128::MIN, u128::MAX,
        isize::MIN, isize::MAX, usize::MAX, 0usize,
        NonZero::<i8>::MIN, NonZero::<u8>::MAX, NonZero::<i16>::MIN, NonZero::<u16>::MAX, NonZero::<i32>::MIN, NonZero::<u32>::MAX,
        NonZero::<i64>::MIN, NonZero::<u64>::MAX, NonZero::<i128>::MIN, NonZero::<u128>::MAX, NonZero::<isize>::MIN, NonZero::<isize>::MAX,
        NonZero::<usize>::MAX, NonZero::<usize>::MIN,
        &-5i8, &7u64, &usize::MAX, &NonZero::<usize>::MAX,
        true, false, &true, 'a', 'é', '\u{80}', '\u{ff}', '\u{10ffff}', &'ß', Box::new('€'),
        "", "a &str", "é€𝄞 sixteen bytes+", &"a &&str", string.clone(), &string, string.as_str(), Cow::Borrowed("cow b"), Cow::<str>::Owned("cow o".into()),
        String::from("boxed").into_boxed_str(), std::rc::Rc::<str>::from("rc str"),
        LeanString::from("short"), ls_long.clone(), &ls_long, &&ls_long, LeanString::new(),
        std::net::Ipv4Addr::new(192, 168, 0, 1), std::time::Duration::from_millis(1500).as_secs_f64(), format_args!("{}-{:>4}", 1, "x"),
        std::fmt::Error, core::char::from_u32(0x1F4BF).unwrap(),
    );
    // a `Display` whose output depends on how often it has been asked (a one-shot joiner, a counter): `to_string()` calls
    // `fmt` exactly once, so must `to_lean_string()` / `try_to_lean_string()`
    {
        struct Counting(std::cell::Cell<u32>, &'static str);
        impl std::fmt::Display for Counting {
            fn fmt(&self, f: &mut std::fmt::Formatter<'_>) -> std::fmt::Result {
                self.0.set(self.0.get() + 1);
                write!(f, "call {} of {}", self.0.get(), self.1)
            }
        }
        for pad in ["x", "a text that makes the result longer than sixteen bytes"] {
            evals += 2;
            let (c1, c2, c3) = (Counting(Default::default(), pad), Counting(Default::default(), pad), Counting(Default::default(), pad));
            let want = c1.to_string();
            let a = c2.to_lean_string();
            let b = c3.try_to_lean_string().map(|s| s.as_str().to_string()).unwrap_or_default();
            if a.as_str() != want || b != want || c2.0.get() != 1 || c3.0.get() != 1 {
                sink.fail(&["C15"], format!("a Display that counts its calls: to_lean_string {:?} after {} call(s), try_to_lean_string {:?} after {} call(s), to_string {:?} after 1", a.as_str(), c2.0.get(), b, c3.0.get(), want));
            }
        }
    }
    // floats are formatted by ryu (shortest digits, exponent form for extremes): the property asks for the value back,
    // not for `to_string()`'s digits -- both entry points must agree and parse back to the same bits
    for v in [0.0f64, -0.0, 1.5, f64::NAN, f64::INFINITY, f64::NEG_INFINITY, f64::MIN_POSITIVE, f64::MAX, 1e21, 0.1f32 as f64, 2.5] {
        evals += 2;
        let a = v.to_lean_string();
        let b = v.try_to_lean_string().map(|s| s.as_str().to_string()).unwrap_or_default();
        let back: f64 = a.as_str().parse().unwrap_or(f64::NAN);
        if a.as_str() != b || (back.to_bits() != v.to_bits() && !(back.is_nan() && v.is_nan())) {
            sink.fail(&["C15"], format!("f64 {v:e}: to_lean_string {:?}, try_to_lean_string {:?}, parses back to {back:e}", a.as_str(), b));
        }
        let f = v as f32;
        let a = f.to_lean_string();
        let back: f32 = a.as_str().parse().unwrap_or(f32::NAN);
        if back.to_bits() != f.to_bits() && !(back.is_nan() && f.is_nan()) {
            sink.fail(&["C15"], format!("f32 {f:e}: to_lean_string {:?} parses back to {back:e}", a.as_str()));
        }
    }
    evals
}

pub fn run(rng: &mut Rng, n: usize, sink: &mut Sink) {

    let mut texts: Vec<String> = vec!["".into(), "a".into(), "b".into(), "ab".into(), "a\u{0}".into(), "é".into(), "e".into(),
        "0123456789abcde".into(), "0123456789abcdef".into(), "0123456789abcdeg".into(), "0123456789abcdefg".into(),
        "0123456789abcdé".into(), "\"quoted\"\n\ttab\\".into(), "𝄞 clef".into(), "Z".into(), "z".into()];
    while texts.len() < n.max(20) {
        let t = gn::rand_text(rng);
        if t.len() <= 300 {
            texts.push(t.clone());
            // a near-equal neighbour: same prefix, one char changed at the end
            let mut u = t.clone();
            u.pop();
            u.push('~');
            texts.push(u);
        }
    }
    let mut keep = vec![];
    let reps: Vec<Vec<(&'static str, LeanString)>> = texts.iter().map(|t| representations(t, &mut keep)).collect();
    let mut evals = 0u64;
    let mut fails: Vec<String> = vec![];
    let mut map: HashMap<LeanString, usize> = HashMap::new();
    let mut bmap: BTreeMap<LeanString, usize> = BTreeMap::new();
    for (i, rs) in reps.iter().enumerate() {
        map.insert(rs[i % rs.len()].1.clone(), i);
        bmap.insert(rs[(i + 3) % rs.len()].1.clone(), i);
    }
    for (i, t1) in texts.iter().enumerate() {
        for (n1, a) in &reps[i] {
            // unary: text, hash, formatting, borrow, lookups
            evals += 1;
            let s: &str = t1.as_str();
            let mut bad = |what: &str| fails.push(format!("{what}: text {:?} stored as {n1}", s));
            if a.as_str() != s || a.as_bytes() != s.as_bytes() || a.len() != s.len() || a.is_empty() != s.is_empty() {
                bad("as_str/len");
            }
            if hash_of(a) != hash_of(s) || hash_of(a) != hash_of(&s.to_string()) {
                bad("Hash differs from str's");
            }
            if format!("{a}") != format!("{s}") || format!("{a:?}") != format!("{s:?}") || format!("{a:>10}|{a:<7}|{a:^9.3}") != format!("{s:>10}|{s:<7}|{s:^9.3}") {
                bad("Display/Debug");
            }
            // every formatting flag a caller can put in the braces (alternate, width, fill, alignment, precision), and the
            // value as a field of a derived `Debug` (pretty-printed too): all of it must be `str`'s output
            {
                #[derive(Debug)]
                #[allow(dead_code)]
                struct Wrap<T> { text: T, n: u8 }
                let (wa, ws) = (Wrap { text: a.clone(), n: 7 }, Wrap { text: s.to_string(), n: 7 });
                if format!("{a:#?}|{a:#}|{a:12?}|{a:*^9}|{a:-<4.1}|{a:>w$}|{a:.0}|{a:5.2?}", w = 6) != format!("{s:#?}|{s:#}|{s:12?}|{s:*^9}|{s:-<4.1}|{s:>w$}|{s:.0}|{s:5.2?}", w = 6)
                    || format!("{wa:?}|{wa:#?}") != format!("{ws:?}|{ws:#?}")
                    || format!("{:?}|{:#?}", Some(a), [a, a]) != format!("{:?}|{:#?}", Some(s), [s, s])
                {
                    bad("Display/Debug with format flags (alternate, width, fill, precision) or inside a derived Debug");
                }
            }
            let br: &str = a.borrow();
            let ar: &str = a.as_ref();
            let ab: &[u8] = a.as_ref();
            let dr: &str = &**a;
            if br != s || ar != s || ab != s.as_bytes() || dr != s {
                bad("Borrow/AsRef/Deref");
            }
            if !map.contains_key(s) || map.get(s).map(|&k| &texts[k]) != Some(t1) {
                bad("HashMap<LeanString,_>::get(&str)");
            }
            if bmap.get(s).map(|&k| &texts[k]) != Some(t1) {
                bad("BTreeMap<LeanString,_>::get(&str)");
            }
            let cow: Cow<str> = Cow::Borrowed(s);
            let owned = s.to_string();
            if !(*a == *s && *s == *a && *a == s && s == *a && *a == owned && owned == *a && *a == cow && cow == *a) {
                bad("== against str/&str/String/Cow in both orders");
            }
            // the conversions and operator glue at the bottom of lib.rs, on every storage shape
            {
                use std::str::FromStr;
                // `AsRef<OsStr>` exists only with the crate's `std` feature (C20 also builds without it)
                #[cfg(feature = "std")]
                {
                    let os: &std::ffi::OsStr = a.as_ref();
                    if os != std::ffi::OsStr::new(s) {
                        bad("AsRef<OsStr>");
                    }
                }
                if String::from(a.clone()) != s || String::from(a) != s {
                    bad("From<LeanString>/From<&LeanString> for String");
                }
                match LeanString::from_str(s) {
                    Ok(p) if p.as_str() == s && p.is_heap_allocated() == (s.len() > 16) => {}
                    _ => bad("FromStr"),
                }
                if (a.clone() + "é-suffix").as_str() != format!("{s}é-suffix") || (a.clone() + "").as_str() != s {
                    bad("Add<&str>");
                }
                let mut st = String::from("p:");
                st.extend(vec![a.clone(), LeanString::from("|"), a.clone()]);
                if st != format!("p:{s}|{s}") {
                    bad("Extend<LeanString> for String");
                }
                let joined: LeanString = vec![a.clone(), a.clone(), LeanString::from("·")].into_iter().collect();
                if joined.as_str() != format!("{s}{s}·") {
                    bad("FromIterator<LeanString>");
                }
                let mut ext = LeanString::from("x");
                ext.extend(vec![a.clone(), a.clone()]);
                if ext.as_str() != format!("x{s}{s}") {
                    bad("Extend<LeanString> for LeanString");
                }
                if a.capacity() < a.len() || LeanString::default().as_str() != "" || !LeanString::new().is_empty() {
                    bad("capacity/Default/new");
                }
                if format!("{a:12}|{a:<3}|{a:*^15}|{a:.1}|{a:>6.2}") != format!("{s:12}|{s:<3}|{s:*^15}|{s:.1}|{s:>6.2}") {
                    bad("Display with width/fill/precision");
                }
            }
            // binary, against every representation of a few other texts
            for j in [i, (i + 1) % texts.len(), (i * 7 + 3) % texts.len(), (i + texts.len() / 2) % texts.len()] {
                let t2 = texts[j].as_str();
                for (n2, b) in &reps[j] {
                    evals += 1;
                    let mut bad = |what: &str| fails.push(format!("{what}: {:?} ({n1}) vs {:?} ({n2})", s, t2));
                    if (a == b) != (s == t2) || (b == a) != (s == t2) || (a != b) != (s != t2) {
                        bad("==");
                    }
                    if a.cmp(b) != s.cmp(t2) || a.partial_cmp(b) != s.partial_cmp(t2) || (a < b) != (s < t2) || (a >= b) != (s >= t2) {
                        bad("cmp");
                    }
                    // every provided method of the comparison traits (an impl may override any of them)
                    if (a <= b) != (s <= t2) || (a > b) != (s > t2) || a.lt(b) != s.lt(t2) || a.le(b) != s.le(t2) || a.gt(b) != s.gt(t2) || a.ge(b) != s.ge(t2)
                        || a.ne(b) != s.ne(t2) || a.eq(b) != s.eq(t2)
                        || a.clone().max(b.clone()).as_str() != s.max(t2) || a.clone().min(b.clone()).as_str() != s.min(t2)
                        || a.clone().clamp(b.clone().min(a.clone()), b.clone().max(a.clone())).as_str() != s
                    {
                        bad("lt/le/gt/ge/ne/max/min/clamp");
                    }
                    {
                        // `Hash::hash_slice` and hashing inside tuples / slices / Option
                        let (mut h1, mut h2) = (std::collections::hash_map::DefaultHasher::new(), std::collections::hash_map::DefaultHasher::new());
                        Hash::hash_slice(&[a.clone(), b.clone()], &mut h1);
                        Hash::hash_slice(&[s, t2], &mut h2);
                        if h1.finish() != h2.finish() || hash_of(&(a, 7u8, Some(b))) != hash_of(&(s, 7u8, Some(t2))) || hash_of(&[a, b][..]) != hash_of(&[s, t2][..]) {
                            bad("hash_slice / hashing inside tuples and slices");
                        }
                    }
                    if (*a == *t2) != (s == t2) || (*t2 == **a) != (s == t2) || (*a == t2.to_string()) != (s == t2) || (Cow::Borrowed(t2) == *a) != (s == t2) {
                        bad("mixed ==");
                    }
                    if (s == t2) && hash_of(a) != hash_of(b) {
                        bad("equal but hash differently");
                    }
                }
            }
            if fails.len() > 20 {
                break;
            }
        }
    }
    // handles that share one buffer (or one static text) but carry different lengths
    for t in texts.iter().take(60) {
        let long = format!("{t}|a shared tail that differs");
        let heap_full = LeanString::from(long.as_str());
        let mut heap_short = heap_full.clone();
        heap_short.truncate(t.len());
        let st_full = LeanString::from_static_str(leak(long.clone()));
        let mut st_short = st_full.clone();
        st_short.truncate(t.len());
        let mut popped = heap_full.clone();
        popped.pop();
        let want_pop = &long[..long.len() - 1];
        for (name, a, b, ta, tb) in [
            ("heap clone truncated vs full", &heap_short, &heap_full, t.as_str(), long.as_str()),
            ("static clone truncated vs full", &st_short, &st_full, t.as_str(), long.as_str()),
            ("heap clone popped vs full", &popped, &heap_full, want_pop, long.as_str()),
            ("heap truncated vs static truncated", &heap_short, &st_short, t.as_str(), t.as_str()),
        ] {
            evals += 1;
            if (a == b) != (ta == tb) || (b == a) != (ta == tb) || a.cmp(b) != ta.cmp(tb) || b.cmp(a) != tb.cmp(ta)
                || a.partial_cmp(b) != ta.partial_cmp(tb) || (hash_of(a) == hash_of(b)) != (hash_of(ta) == hash_of(tb))
                || format!("{a}") != ta || format!("{b:?}") != format!("{tb:?}")
            {
                fails.push(format!("{name}: texts {:?} / {:?}: ==/cmp/hash/format disagree with str", ta, tb));
            }
            let mut set = std::collections::BTreeSet::new();
            set.insert(a.clone());
            set.insert(b.clone());
            let mut hs = std::collections::HashSet::new();
            hs.insert(a.clone());
            hs.insert(b.clone());
            let want = if ta == tb { 1 } else { 2 };
            if set.len() != want || hs.len() != want {
                fails.push(format!("{name}: a set of the two holds {} / {} elements, expected {want}", set.len(), hs.len()));
            }
        }
    }
    for f in fails.iter().take(20) {
        sink.fail(&["C17"], f.clone());
    }
    sink.oracle.evaluations += evals;
    sink.oracle.distinct_nontrivial += evals;
    sink.oracle.samples.push(format!("{} texts x 9 storage shapes (fresh, after pop, over-allocated+shared, truncated with stale tail shared/unique, static, static truncated, pushed char by char, reserved then shrunk); ==/cmp/hash/format/borrow/map lookups against str, String, Cow", texts.len()));
    sink.oracle.samples.push(format!("e.g. text {:?} vs {:?}", texts[5], texts[6]));
    let _ = hex(b"");
}

#[cfg(not(feature = "ext"))]
pub fn serde(_rng: &mut Rng, _n: usize, sink: &mut Sink) {
    sink.fail(&["C19"], "harness built without the `ext` feature: serde/arbitrary not available".into());
}

#[cfg(feature = "ext")]
pub fn serde(rng: &mut Rng, n: usize, sink: &mut Sink) {
    use arbitrary::{Arbitrary, Unstructured};
    use serde::Deserialize;
    use serde::de::IntoDeserializer;
    use serde::de::value::{BorrowedBytesDeserializer, BorrowedStrDeserializer, BytesDeserializer, Error as VErr, StrDeserializer, StringDeserializer};
    let mut evals = 0u64;
    let mut texts: Vec<String> = vec!["".into(), "a".into(), "\"q\"\\\n\t\u{1}\u{7f}".into(), "é€𝄞".into(), "0123456789abcdef".into(), "0123456789abcdefg".into(), "\u{2028}\u{2029}".into()];
    // code points that text-processing shortcuts single out (BOM, NUL, replacement character, non-characters, the
    // surrogate neighbours, the last scalar, Unicode white space and line separators): alone, leading, trailing,
    // embedded, short (inline) and long (heap)
    for cp in ['\u{FEFF}', '\u{0}', '\u{FFFD}', '\u{FFFE}', '\u{FFFF}', '\u{D7FF}', '\u{E000}', '\u{10FFFF}', '\u{85}', '\u{A0}',
               '\u{200B}', '\u{2028}', ' ', '\t', '\r', '\n', '"', '\\', '\u{7F}', '\u{80}'] {
        texts.push(cp.to_string());
        texts.push(format!("{cp}hi"));
        texts.push(format!("hi{cp}"));
        texts.push(format!("h{cp}{cp}i"));
        texts.push(format!("{cp}a text longer than sixteen bytes{cp}"));
    }
    for _ in 0..300 * n {
        texts.push(gn::rand_text(rng));
    }
    let mut keep = vec![];
    for t in &texts {
        for (name, ls) in representations(t, &mut keep) {
            evals += 1;
            let a = serde_json::to_string(&ls).unwrap();
            let b = serde_json::to_string(&t).unwrap();
            if a != b {
                sink.fail(&["C19"], format!("serialize {:?} stored as {name}: {a} vs String's {b}", t));
            }
            let back: LeanString = serde_json::from_str(&b).unwrap();
            if back.as_str() != t.as_str() {
                sink.fail(&["C19"], format!("JSON round trip of {:?}", t));
            }
        }
        // every visitor entry point
        evals += 5;
        let d1: Result<LeanString, VErr> = LeanString::deserialize(StrDeserializer::new(t.as_str()));
        let d2: Result<LeanString, VErr> = LeanString::deserialize(BorrowedStrDeserializer::new(t.as_str()));
        let d3: Result<LeanString, VErr> = LeanString::deserialize(StringDeserializer::new(t.clone()));
        let d4: Result<LeanString, VErr> = LeanString::deserialize(BytesDeserializer::new(t.as_bytes()));
        let d5: Result<LeanString, VErr> = LeanString::deserialize(BorrowedBytesDeserializer::new(t.as_bytes()));
        for (k, d) in [d1, d2, d3, d4, d5].into_iter().enumerate() {
            match d {
                Ok(s) if s.as_str() == t.as_str() => {}
                other => sink.fail(&["C19"], format!("deserialize route {k} of {:?} gave {:?}", t, other.map(|s| s.as_str().to_string()))),
            }
        }
        // the same five routes through `deserialize_in_place`, over places that already hold something (inline, heap,
        // shared heap): the result must be what `String::deserialize_in_place` leaves
        for old in ["", "old", "an old text that is longer than sixteen bytes"] {
            for route in 0..5usize {
                evals += 1;
                let mut p1 = LeanString::from(old);
                let keep = p1.clone();
                let mut p2 = String::from(old);
                let (r1, r2): (Result<(), VErr>, Result<(), VErr>) = match route {
                    0 => (Deserialize::deserialize_in_place(StrDeserializer::new(t.as_str()), &mut p1), Deserialize::deserialize_in_place(StrDeserializer::new(t.as_str()), &mut p2)),
                    1 => (Deserialize::deserialize_in_place(BorrowedStrDeserializer::new(t.as_str()), &mut p1), Deserialize::deserialize_in_place(BorrowedStrDeserializer::new(t.as_str()), &mut p2)),
                    2 => (Deserialize::deserialize_in_place(StringDeserializer::new(t.clone()), &mut p1), Deserialize::deserialize_in_place(StringDeserializer::new(t.clone()), &mut p2)),
                    3 => (Deserialize::deserialize_in_place(BytesDeserializer::new(t.as_bytes()), &mut p1), Deserialize::deserialize_in_place(BytesDeserializer::new(t.as_bytes()), &mut p2)),
                    _ => (Deserialize::deserialize_in_place(BorrowedBytesDeserializer::new(t.as_bytes()), &mut p1), Deserialize::deserialize_in_place(BorrowedBytesDeserializer::new(t.as_bytes()), &mut p2)),
                };
                if r1.is_ok() != r2.is_ok() || (r1.is_ok() && p1.as_str() != p2.as_str()) || keep.as_str() != old {
                    sink.fail(&["C19"], format!("deserialize_in_place route {route} of {:?} over {:?}: {:?} holding {:?}; String: {:?} holding {:?}", t, old, r1.is_ok(), p1.as_str(), r2.is_ok(), p2));
                }
            }
        }
        let _ = t.as_str().into_deserializer() as StrDeserializer<VErr>;
    }
    // a serializer that is not JSON and records which method it was handed and with what: LeanString and String must
    // make the same call (a format without self-description tells `serialize_str` from `collect_str`/bytes/newtype)
    {
        use serde::ser::{Impossible, Serializer};
        #[derive(Clone, Copy)]
        struct Rec(bool);
        macro_rules! rec_prim { ($($m:ident: $t:ty),*) => {$( fn $m(self, v: $t) -> Result<String, VErr> { Ok(format!("{}:{:?}", stringify!($m), v)) } )*}; }
        impl Serializer for Rec {
            fn is_human_readable(&self) -> bool { self.0 }
            type Ok = String;
            type Error = VErr;
            type SerializeSeq = Impossible<String, VErr>;
            type SerializeTuple = Impossible<String, VErr>;
            type SerializeTupleStruct = Impossible<String, VErr>;
            type SerializeTupleVariant = Impossible<String, VErr>;
            type SerializeMap = Impossible<String, VErr>;
            type SerializeStruct = Impossible<String, VErr>;
            type SerializeStructVariant = Impossible<String, VErr>;
            rec_prim!(serialize_bool: bool, serialize_i8: i8, serialize_i16: i16, serialize_i32: i32, serialize_i64: i64, serialize_u8: u8,
                serialize_u16: u16, serialize_u32: u32, serialize_u64: u64, serialize_f32: f32, serialize_f64: f64, serialize_char: char,
                serialize_str: &str, serialize_bytes: &[u8]);
            fn serialize_none(self) -> Result<String, VErr> { Ok("none".into()) }
            fn serialize_some<T: ?Sized + serde::Serialize>(self, v: &T) -> Result<String, VErr> { Ok(format!("some({})", v.serialize(self)?)) }
            fn serialize_unit(self) -> Result<String, VErr> { Ok("unit".into()) }
            fn serialize_unit_struct(self, n: &'static str) -> Result<String, VErr> { Ok(format!("unit_struct {n}")) }
            fn serialize_unit_variant(self, n: &'static str, i: u32, v: &'static str) -> Result<String, VErr> { Ok(format!("unit_variant {n} {i} {v}")) }
            fn serialize_newtype_struct<T: ?Sized + serde::Serialize>(self, n: &'static str, v: &T) -> Result<String, VErr> { Ok(format!("newtype {n}({})", v.serialize(self)?)) }
            fn serialize_newtype_variant<T: ?Sized + serde::Serialize>(self, n: &'static str, i: u32, vn: &'static str, v: &T) -> Result<String, VErr> { Ok(format!("newtype_variant {n} {i} {vn}({})", v.serialize(self)?)) }
            fn serialize_seq(self, _: Option<usize>) -> Result<Self::SerializeSeq, VErr> { Err(serde::ser::Error::custom("seq")) }
            fn serialize_tuple(self, _: usize) -> Result<Self::SerializeTuple, VErr> { Err(serde::ser::Error::custom("tuple")) }
            fn serialize_tuple_struct(self, _: &'static str, _: usize) -> Result<Self::SerializeTupleStruct, VErr> { Err(serde::ser::Error::custom("tuple_struct")) }
            fn serialize_tuple_variant(self, _: &'static str, _: u32, _: &'static str, _: usize) -> Result<Self::SerializeTupleVariant, VErr> { Err(serde::ser::Error::custom("tuple_variant")) }
            fn serialize_map(self, _: Option<usize>) -> Result<Self::SerializeMap, VErr> { Err(serde::ser::Error::custom("map")) }
            fn serialize_struct(self, _: &'static str, _: usize) -> Result<Self::SerializeStruct, VErr> { Err(serde::ser::Error::custom("struct")) }
            fn serialize_struct_variant(self, _: &'static str, _: u32, _: &'static str, _: usize) -> Result<Self::SerializeStructVariant, VErr> { Err(serde::ser::Error::custom("struct_variant")) }
            fn collect_str<T: ?Sized + std::fmt::Display>(self, v: &T) -> Result<String, VErr> { Ok(format!("collect_str:{v}")) }
        }
        let mut keep = vec![];
        for t in texts.iter().take(80) {
            for (name, ls) in representations(t, &mut keep) {
                for human_readable in [true, false] {
                    evals += 1;
                    let a = serde::Serialize::serialize(&ls, Rec(human_readable)).map_err(|e| e.to_string());
                    let b = serde::Serialize::serialize(t, Rec(human_readable)).map_err(|e| e.to_string());
                    let (wa, wb) = (serde::Serialize::serialize(&Some(ls.clone()), Rec(human_readable)).map_err(|e| e.to_string()),
                        serde::Serialize::serialize(&Some(t.clone()), Rec(human_readable)).map_err(|e| e.to_string()));
                    if a != b || wa != wb {
                        sink.fail(&["C19"], format!("serialize {:?} stored as {name} into a recording serializer (human_readable = {human_readable}): {:?}, String makes the call {:?}", t, a, b));
                    }
                }
            }
        }
    }
    // inputs of the wrong type: the error (it quotes the visitor's `expecting`) must be the one `String` reports
    for bad in ["123", "true", "null", "[\"a\"]", "{\"a\":1}", "1.5", "\"unterminated"] {
        evals += 1;
        let e1 = serde_json::from_str::<LeanString>(bad).map(|s| s.as_str().to_string()).map_err(|e| e.to_string());
        let e2 = serde_json::from_str::<String>(bad).map_err(|e| e.to_string());
        if e1 != e2 {
            sink.fail(&["C19"], format!("deserializing JSON {bad}: {:?}, String gives {:?}", e1, e2));
        }
    }
    // byte inputs over the UTF-8 class alphabet
    const A: [u8; 17] = [0x41, 0x7F, 0x80, 0x8F, 0x90, 0x9F, 0xA0, 0xBF, 0xC0, 0xC2, 0xDF, 0xE0, 0xE1, 0xED, 0xF0, 0xF4, 0xFF];
    let maxlen = n.min(5);
    let mut idx: Vec<usize> = vec![];
    loop {
        let bytes: Vec<u8> = idx.iter().map(|&i| A[i]).collect();
        evals += 2;
        let want = std::str::from_utf8(&bytes).ok().map(|s| s.to_string());
        let g1: Result<LeanString, VErr> = LeanString::deserialize(BytesDeserializer::new(&bytes));
        let g2: Result<LeanString, VErr> = LeanString::deserialize(BorrowedBytesDeserializer::new(&bytes));
        for g in [g1, g2] {
            let got = g.ok().map(|s| s.as_str().to_string());
            if got != want {
                sink.fail(&["C19"], format!("byte input {}: deserialized to {:?}, str::from_utf8 gives {:?}", hex(&bytes), got, want));
            }
        }
        let mut k = idx.len();
        loop {
            if k == 0 {
                idx = vec![0; idx.len() + 1];
                break;
            }
            k -= 1;
            if idx[k] + 1 < A.len() {
                idx[k] += 1;
                for j in k + 1..idx.len() {
                    idx[j] = 0;
                }
                break;
            }
        }
        if idx.len() > maxlen || sink.ex.failures.len() > 10 {
            break;
        }
    }
    // byte inputs whose length sits at the inline limit (15, 16, 17 bytes; also 8/32) with EVERY value of the
    // last byte, and every pair of class-alphabet bytes at the end: the 16th byte of an inline string doubles
    // as the length tag, so a decoder that stores before validating is sensitive exactly here
    'boundary: for total in [1usize, 8, 15, 16, 17, 18, 32] {
        for prefix_kind in 0..3 {
            let mut tails: Vec<Vec<u8>> = (0..=255u8).map(|b| vec![b]).collect();
            for &x in A.iter() {
                for &y in A.iter() {
                    tails.push(vec![x, y]);
                }
            }
            for tail in tails {
                if tail.len() > total {
                    continue;
                }
                let mut bytes: Vec<u8> = match prefix_kind {
                    0 => (0..total - tail.len()).map(|i| b'a' + (i % 26) as u8).collect(),
                    1 => "é€𝄞é€𝄞é€𝄞é€𝄞é€𝄞".bytes().take(total - tail.len()).collect(),
                    _ => (0..total - tail.len()).map(|i| if i % 5 == 4 { 0xFF } else { b'0' + (i % 10) as u8 }).collect(),
                };
                bytes.extend_from_slice(&tail);
                evals += 2;
                let want = std::str::from_utf8(&bytes).ok().map(|s| s.to_string());
                let g1: Result<LeanString, VErr> = LeanString::deserialize(BytesDeserializer::new(&bytes));
                let g2: Result<LeanString, VErr> = LeanString::deserialize(BorrowedBytesDeserializer::new(&bytes));
                for g in [g1, g2] {
                    let got = g.ok().map(|s| s.as_str().to_string());
                    if got != want && sink.ex.failures.len() <= 10 {
                        sink.fail(&["C19"], format!("byte input {} ({} bytes): deserialized to {:?}, str::from_utf8 gives {:?}", hex(&bytes), bytes.len(), got, want));
                    }
                }
                // stop at the first disagreement: later inputs of this block (final bytes in the
                // heap/static marker range) could make a broken decoder dereference garbage
                if !sink.ex.failures.is_empty() {
                    break 'boundary;
                }
            }
        }
    }
    // arbitrary
    for seed in 0..(20000 * n) {
        let len = seed % 64;
        let data: Vec<u8> = (0..len).map(|_| rng.next() as u8).collect();
        evals += 2;
        let a = LeanString::arbitrary(&mut Unstructured::new(&data)).ok().map(|s| s.as_str().to_string());
        let b = <&str>::arbitrary(&mut Unstructured::new(&data)).ok().map(|s| s.to_string());
        let a2 = LeanString::arbitrary_take_rest(Unstructured::new(&data)).ok().map(|s| s.as_str().to_string());
        let b2 = <&str>::arbitrary_take_rest(Unstructured::new(&data)).ok().map(|s| s.to_string());
        if a != b || a2 != b2 || LeanString::size_hint(0) != <&str>::size_hint(0) {
            sink.fail(&["C19"], format!("arbitrary from {}: {:?}/{:?} vs <&str>'s {:?}/{:?}", hex(&data), a, a2, b, b2));
            break;
        }
        // a transparent wrapper also *consumes* what `&str` consumes: draw twice from one `Unstructured`
        // and compare both texts and what is left
        {
            let mut ul = Unstructured::new(&data);
            let mut us = Unstructured::new(&data);
            let l1 = LeanString::arbitrary(&mut ul).ok().map(|s| s.as_str().to_string());
            let s1 = <&str>::arbitrary(&mut us).ok().map(|s| s.to_string());
            let (rl, rs) = (ul.len(), us.len());
            let l2 = LeanString::arbitrary(&mut ul).ok().map(|s| s.as_str().to_string());
            let s2 = <&str>::arbitrary(&mut us).ok().map(|s| s.to_string());
            evals += 2;
            if l1 != s1 || rl != rs || l2 != s2 {
                sink.fail(&["C19"], format!("arbitrary, two draws from {}: {:?} then {:?} ({} bytes left after the first) vs <&str>'s {:?} then {:?} ({} left)", hex(&data), l1, l2, rl, s1, s2, rs));
                break;
            }
        }
    }
    sink.oracle.evaluations += evals;
    sink.oracle.distinct_nontrivial += evals;
    sink.oracle.samples.push(format!("serde_json of {} texts in 9 storage shapes vs String; Str/BorrowedStr/String/Bytes/BorrowedBytes deserializers; all byte strings of length <= {maxlen} over the UTF-8 class alphabet; Unstructured seeds vs <&str>::arbitrary (3 methods)", texts.len()));
}

// ------------------------------------------------------------------------------------------------------------------
// C18 / C01: every `Extend` / `FromIterator` impl (items char, &char, &str, Box<str>, Cow<str>, String, LeanString, and
// `Extend<LeanString> for String`) against `String`, on every storage shape of the target, with items that are short
// (inline) and long (heap) and an iterator that panics at every position.  The scripted families run these impls only
// with items that allocate nothing (the model does not see the items' own buffers); this sweep has no model, only std.
// ------------------------------------------------------------------------------------------------------------------
const IG_PANIC: &str = "verif-callback-panic";

struct PanicIter<T> {
    items: Vec<T>,
    pos: usize,
    panic_at: Option<usize>,
}
impl<T: Clone> Iterator for PanicIter<T> {
    type Item = T;
    fn next(&mut self) -> Option<T> {
        if Some(self.pos) == self.panic_at {
            panic!("{}", IG_PANIC);
        }
        let r = self.items.get(self.pos).cloned();
        self.pos += 1;
        r
    }
}

fn caught<R>(f: impl FnOnce() -> R) -> Result<R, String> {
    let prev = std::panic::take_hook();
    std::panic::set_hook(Box::new(|_| {}));
    let r = std::panic::catch_unwind(std::panic::AssertUnwindSafe(f));
    std::panic::set_hook(prev);
    r.map_err(|e| e.downcast_ref::<String>().cloned().or_else(|| e.downcast_ref::<&str>().map(|s| s.to_string())).unwrap_or_default())
}

pub fn iterglue(rng: &mut Rng, n: usize, sink: &mut Sink) {
    let mut evals = 0u64;
    let long1 = "a first item that is longer than sixteen bytes";
    let long2 = "é€𝄞 second long item, multi-byte";
    let mut item_lists: Vec<Vec<String>> = vec![
        vec![], vec!["x".into()], vec![long1.into()], vec![long1.into(), "y".into()], vec!["y".into(), long1.into()],
        vec![long1.into(), long2.into()], vec!["".into(), long1.into(), "".into()], vec!["0123456789abcdef".into(), "g".into()],
        vec!["é".into(), "€".into(), "𝄞".into()],
    ];
    for _ in 0..n {
        let k = 1 + rng.below(4);
        item_lists.push((0..k).map(|_| gn::rand_text(rng)).collect());
    }
    let targets = ["", "t", "0123456789abcde", "0123456789abcdef", "a target text longer than sixteen bytes"];
    let live0 = crate::shadow::with(|sh| sh.live_blocks());
    for items in &item_lists {
        let chars: Vec<char> = items.concat().chars().collect();
        for tgt in targets {
            let mut keep = vec![];
            let shapes = representations(tgt, &mut keep);
            for (shape, base) in shapes {
                // the target's own clones as items (they share its buffer when it is on the heap)
                {
                    evals += 2;
                    let mut ls = base.clone();
                    ls.extend([base.clone(), base.clone()]);
                    let c: LeanString = [base.clone(), ls.clone(), base.clone()].into_iter().collect();
                    if ls.as_str() != tgt.repeat(3) || c.as_str() != tgt.repeat(5) || base.as_str() != tgt {
                        sink.fail(&["C01", "C02"], format!("extend / collect of a {shape} value's own clones: {:?} / {:?} (the value itself: {:?})", ls.as_str(), c.as_str(), base.as_str()));
                    }
                    let mut other = String::from("s:");
                    other.extend([base.clone(), ls.clone()]);
                    if other != format!("s:{}", tgt.repeat(4)) {
                        sink.fail(&["C01"], format!("String::extend with {shape} LeanString items: {:?}", other));
                    }
                    let back: String = base.clone().into();
                    let back2: String = (&base).into();
                    if back != tgt || back2 != tgt {
                        sink.fail(&["C01"], format!("From<LeanString> / From<&LeanString> for String on a {shape} value: {:?} / {:?}", back, back2));
                    }
                }
                // panic positions: none, and before every `next()` up to one past the end
                let strs_n = items.len();
                for kind in 0..8usize {
                    let upto = if kind <= 1 { chars.len().min(6) } else { strs_n };
                    for pa in std::iter::once(None).chain((0..=upto).map(Some)) {
                        evals += 1;
                        let mut ls = base.clone();
                        let mut or = String::from(tgt);
                        let mut other = String::from(tgt); // kind 7: a `String` extended with LeanStrings
                        let r1 = caught(|| match kind {
                            0 => ls.extend(PanicIter { items: chars.clone(), pos: 0, panic_at: pa }),
                            1 => {
                                let refs: Vec<&char> = chars.iter().collect();
                                ls.extend(PanicIter { items: refs, pos: 0, panic_at: pa })
                            }
                            2 => {
                                let refs: Vec<&str> = items.iter().map(|s| s.as_str()).collect();
                                ls.extend(PanicIter { items: refs, pos: 0, panic_at: pa })
                            }
                            3 => ls.extend(PanicIter { items: items.iter().map(|s| s.clone().into_boxed_str()).collect::<Vec<Box<str>>>(), pos: 0, panic_at: pa }),
                            4 => ls.extend(PanicIter {
                                items: items.iter().enumerate().map(|(k, s)| if k % 2 == 0 { Cow::Borrowed(s.as_str()) } else { Cow::Owned(s.clone()) }).collect::<Vec<Cow<'_, str>>>(),
                                pos: 0, panic_at: pa }),
                            5 => ls.extend(PanicIter { items: items.clone(), pos: 0, panic_at: pa }),
                            6 => ls.extend(PanicIter { items: items.iter().map(|s| LeanString::from(s.as_str())).collect::<Vec<LeanString>>(), pos: 0, panic_at: pa }),
                            _ => other.extend(PanicIter { items: items.iter().map(|s| LeanString::from(s.as_str())).collect::<Vec<LeanString>>(), pos: 0, panic_at: pa }),
                        });
                        let r2 = caught(|| if kind <= 1 {
                            or.extend(PanicIter { items: chars.clone(), pos: 0, panic_at: pa })
                        } else {
                            or.extend(PanicIter { items: items.clone(), pos: 0, panic_at: pa })
                        });
                        let got = if kind == 7 { other.as_str() } else { ls.as_str() };
                        let kn = ["char", "&char", "&str", "Box<str>", "Cow<str>", "String", "LeanString", "LeanString into String"][kind];
                        if r1.is_ok() != r2.is_ok() {
                            sink.fail(&["C18", "C01"], format!("extend with {kn} items {:?} (iterator panics at {:?}) on {shape} target {:?}: crate {:?}, String {:?}", items, pa, tgt, r1.as_ref().err(), r2.as_ref().err()));
                        } else if got != or.as_str() {
                            let p: &[&'static str] = if pa.is_some() { &["C18", "C01"] } else { &["C01"] };
                            sink.fail(p, format!("extend with {kn} items {:?} (iterator panics at {:?}) on {shape} target {:?}: holds {:?}, String holds {:?}", items, pa, tgt, got, or));
                        }
                        if let Err(m) = &r1 {
                            if m != IG_PANIC {
                                sink.fail(&["C18"], format!("extend with {kn} items {:?} on {shape} target {:?} panicked with {:?}", items, tgt, m));
                            }
                        }
                        // the same items through FromIterator (only once per item list: on the first target / shape)
                        if tgt.is_empty() && shape == "from" && kind < 7 {
                            evals += 1;
                            let c1 = caught(|| -> LeanString { match kind {
                                0 => PanicIter { items: chars.clone(), pos: 0, panic_at: pa }.collect(),
                                1 => { let refs: Vec<&char> = chars.iter().collect(); PanicIter { items: refs, pos: 0, panic_at: pa }.collect() }
                                2 => { let refs: Vec<&str> = items.iter().map(|s| s.as_str()).collect(); PanicIter { items: refs, pos: 0, panic_at: pa }.collect() }
                                3 => PanicIter { items: items.iter().map(|s| s.clone().into_boxed_str()).collect::<Vec<Box<str>>>(), pos: 0, panic_at: pa }.collect(),
                                4 => PanicIter { items: items.iter().map(|s| Cow::Owned::<str>(s.clone())).collect::<Vec<Cow<'_, str>>>(), pos: 0, panic_at: pa }.collect(),
                                5 => PanicIter { items: items.clone(), pos: 0, panic_at: pa }.collect(),
                                _ => PanicIter { items: items.iter().map(|s| LeanString::from(s.as_str())).collect::<Vec<LeanString>>(), pos: 0, panic_at: pa }.collect(),
                            }});
                            let want: String = if kind <= 1 { chars.iter().collect() } else { items.concat() };
                            match (&c1, pa) {
                                (Ok(v), None) if v.as_str() != want => sink.fail(&["C01"], format!("collect of {kn} items {:?}: {:?}, String gives {:?}", items, v.as_str(), want)),
                                (Ok(v), Some(p)) if p <= upto => sink.fail(&["C18"], format!("collect of {kn} items {:?} with a panic at {p} returned {:?}", items, v.as_str())),
                                _ => {}
                            }
                        }
                    }
                }
            }
            // the handles that share buffers with the shapes (a clone of the over-allocated one, the full text behind the
            // truncated one) must still read what they read before: nothing above may have written into a shared buffer
            let want_keep = [tgt.to_string(), format!("{tgt}STALE TAIL BYTES BEHIND THE END")];
            for (k, w) in keep.iter().zip(want_keep.iter()) {
                if k.as_str() != w {
                    sink.fail(&["C02", "C01"], format!("after extend/collect calls on handles sharing its buffer, a live handle reads {:?} instead of {:?} (items {:?})", k.as_str(), w, items));
                }
            }
            drop(keep);
        }
    }
    // everything built above is gone: no block may be left behind (panics included)
    let live1 = crate::shadow::with(|sh| sh.live_blocks());
    if live1 != live0 {
        sink.fail(&["C18", "C05", "C03"], format!("{} heap block(s) still allocated after the extend/collect sweep with panicking iterators (before: {live0}, after: {live1})", live1 as i64 - live0 as i64));
    }
    sink.oracle.evaluations += evals;
    sink.oracle.distinct_nontrivial += evals;
    sink.oracle.samples.push(format!("{} item lists (short and long items) x 5 targets x 9 storage shapes x 8 item types (char, &char, &str, Box<str>, Cow, String, LeanString, LeanString into String) x every panic position; extend and collect against String", item_lists.len()));
}
