//! Directed script families (one or more per property) and pure oracle sweeps.
use crate::Sink;
use crate::exec::hex;
use crate::gn::{self, Rng, STATIC_TEXTS};
use lean_string::{LeanString, ToLeanString};

fn tl(rng: &mut Rng, base: usize, spread: usize) -> String {
    let n = base + rng.below(spread);
    gn::text_of_len(rng, n)
}

fn h(s: &str) -> String {
    hex(s.as_bytes())
}

const T20: &str = "0123456789abcdeéXYZ"; // 20 bytes

/// (name, setup lines) — the target is always handle 0; siblings are 1, 2
fn states(rng: &mut Rng, text: &str) -> Vec<(&'static str, Vec<String>)> {
    let t = h(text);
    let mut v = vec![
        ("unique", vec![format!("from 0 {t}")]),
        ("shared2", vec![format!("from 0 {t}"), "clone 1 0".into()]),
        ("shared3", vec![format!("from 0 {t}"), "clone 1 0".into(), "clone 2 1".into()]),
        ("over", vec![format!("with_capacity 0 {}", text.len() + 1 + rng.below(40)), format!("push_str 0 {t}")]),
    ];
    v.push(("was-shared", vec![format!("from 0 {t}"), "clone 1 0".into(), "drop 1".into()]));
    // the same text with *stale bytes behind its end* (what shrinking leaves in place): after the left shift of
    // `remove(0)` the byte at `len` is the old last byte (a continuation byte when the text ends in a multi-byte
    // character); after `clear` + `push_str` the bytes at and after `len` are the middle of old characters
    v.push(("stale-shift", vec![format!("from 0 {}", h(&format!("a{text}"))), "remove 0 0".into()]));
    let euros_inline = "€".repeat(5);
    let euros_heap = "€".repeat(12 + text.len() / 3);
    if text.len() <= 14 {
        v.push(("stale-clear-inline", vec![format!("from 0 {}", h(&euros_inline)), "clear 0".into(), format!("push_str 0 {t}")]));
    }
    v.push(("stale-clear-heap", vec![format!("from 0 {}", h(&euros_heap)), "clear 0".into(), format!("push_str 0 {t}")]));
    v
}

fn mutators(rng: &mut Rng, text: &[u8], target: usize) -> Vec<String> {
    let i1 = gn::index(rng, text);
    let i2 = gn::index(rng, text);
    let i3 = gn::index(rng, text);
    let i4 = gn::index(rng, text);
    vec![
        format!("push {target} {}", h(gn::rand_char(rng))),
        format!("push_str {target} {}", h(&gn::short_text(rng))),
        format!("pop {target}"),
        format!("remove {target} {i1}"),
        format!("insert {target} {i2} {}", h(gn::rand_char(rng))),
        format!("insert_str {target} {i3} {}", h(&gn::short_text(rng))),
        format!("truncate {target} {i4}"),
        format!("clear {target}"),
        format!("retain {target} TFTTFTFFTTTFTFTTFT"),
        format!("reserve {target} {}", rng.below(40)),
        format!("shrink_to_fit {target}"),
        format!("shrink_to {target} {}", rng.below(40)),
        format!("extend_chars {target} {} {}", rng.below(8), gn::items_chars(rng, false)),
        format!("extend_strs {target} {}", gn::items_strs(rng, false, false)),
        format!("add_assign {target} {}", h(&gn::short_text(rng))),
        format!("add {target} {}", h(&gn::short_text(rng))),
        format!("write {target} {}", gn::items_strs(rng, false, false)),
    ]
}

/// every 16-byte valid text shape: all 192 legal final bytes
fn full_inline_texts() -> Vec<Vec<u8>> {
    let mut v = vec![];
    for b in 0u8..0x80 {
        let mut t = b"0123456789abcde".to_vec();
        t.push(b);
        v.push(t);
    }
    for b in 0x80u8..=0xBF {
        // 2-byte char ending in b, 3-byte and 4-byte chars ending in b
        let mut t = b"0123456789abcd".to_vec();
        t.extend_from_slice(&[0xC3, b]);
        v.push(t);
        let mut t = b"0123456789abc".to_vec();
        t.extend_from_slice(&[0xE2, 0x82, b]);
        v.push(t);
        let mut t = b"0123456789ab".to_vec();
        t.extend_from_slice(&[0xF0, 0x9F, 0x98, b]);
        v.push(t);
    }
    v
}

pub fn run_directed(name: &str, rng: &mut Rng, n: usize, sink: &mut Sink) -> bool {
    match name {
        "tour" => tour(rng, n, sink),
        "edges" => edges(rng, n, sink),
        "ladder" => ladder(rng, n, sink),
        "faultsweep" => faultsweep(rng, n, sink),
        "sizes" => sizes(rng, n, sink),
        "indexgrid" => indexgrid(rng, n, sink),
        "clones" => clones(rng, n, sink),
        "inline" | "niche" => inline(rng, n, sink, name == "niche"),
        "statics" => statics(rng, n, sink),
        "capacity" => capacity(rng, n, sink),
        "growth" => growth(rng, n, sink),
        "shrink" => shrink(rng, n, sink),
        "callbacks" => callbacks(rng, n, sink),
        "ints" => ints(rng, n, sink),
        "ints_exhaustive32" => ints_exhaustive32(sink),
        "display" => display(rng, n, sink),
        "floats" => floats(rng, n, sink),
        "floats_f32_all" => floats_f32_all(sink),
        "chars" => chars(sink),
        "decode" => decode(rng, n, sink, true),
        "decode_oracle" => decode(rng, n, sink, false),
        "traits" => crate::traitsuite::run(rng, n, sink),
        "serde" => crate::traitsuite::serde(rng, n, sink),
        "iterglue" => crate::traitsuite::iterglue(rng, n, sink),
        "threads" => crate::threads::run(rng, n, sink),
        _ => return false,
    }
    true
}

// ------------------------------------------------------------------------------------------ C01 … C13
/// Histories a random generator rarely produces: exact lengths and capacities (15/16/17, powers of two, capacity ==
/// length), degenerate arguments (`reserve(0)`, `shrink_to(usize::MAX)`, `truncate(len)`, `insert_str(len, "")`), and
/// each of them in every storage history (fresh, static, static cut to exactly 16, shared by three handles of three
/// lengths, emptied heap, `with_capacity(0/16/17)`).
fn edges(rng: &mut Rng, n: usize, sink: &mut Sink) {
    let t15 = "0123456789abcdé"; // 16 bytes: 14 ASCII + a 2-byte character
    let t16 = "0123456789abcdef";
    let t17 = "0123456789abcdefg";
    let t17m = "0123456789abcde€"; // 18 bytes ending in a 3-byte character
    let setups: Vec<Vec<String>> = vec![
        vec!["new 0".into()],
        vec![format!("from 0 {}", h(t15))],
        vec![format!("from 0 {}", h(t16))],
        vec![format!("from 0 {}", h(t17))],
        vec![format!("from 0 {}", h(t17m))],
        vec![format!("from 0 {}", h(T20))],
        vec!["from_static 0 5".into()],                              // exactly 16 bytes of static text (stored inline)
        vec!["from_static 0 6".into()],                              // 17+1 bytes
        vec!["from_static 0 2".into(), "truncate 0 16".into()],      // a static cut to exactly 16
        vec!["from_static 0 1".into(), "truncate 0 17".into()],
        vec!["from_static 0 0".into(), "pop 0".into()],              // 17 -> 16 by pop
        vec!["with_capacity 0 0".into()],
        vec!["with_capacity 0 16".into()],
        vec!["with_capacity 0 17".into()],
        vec!["with_capacity 0 32".into(), format!("push_str 0 {}", h(t16))],
        vec!["with_capacity 0 64".into(), format!("push_str 0 {}", h(T20)), "clone 1 0".into(), "clone 2 0".into(), "truncate 1 5".into(), "pop 2".into()],
        vec![format!("from 0 {}", h(T20)), "clone 1 0".into(), "truncate 0 16".into()],
        vec![format!("from 0 {}", h(T20)), "clone 1 0".into(), "truncate 0 17".into(), "drop 1".into()],
        vec![format!("from 0 {}", h(T20)), "clear 0".into()],
        vec![format!("from 0 {}", h(t17)), "pop 0".into()],          // heap text of exactly 16 bytes
        vec![format!("from 0 {}", h("ab")), "pop 0".into(), "pop 0".into()],
        vec![format!("from 0 {}", h(T20)), "reserve 0 44".into()],    // capacity 64: a power of two
        vec![format!("from 0 {}", h(T20)), "shrink_to_fit 0".into()], // capacity == length
    ];
    let big = usize::MAX;
    for rounds in 0..n.max(1) {
        for setup in &setups {
            let cur_len = |sink: &mut Sink| sink.ex.observe(0).map(|o| o.len).unwrap_or(0);
            let probes: Vec<Box<dyn Fn(usize) -> Vec<String>>> = vec![
                Box::new(|_| vec!["reserve 0 0".into(), "push 0 61".into()]),
                Box::new(|_| vec!["reserve 0 1".into(), "push 0 61".into()]),
                Box::new(move |_| vec![format!("try_reserve 0 {big}"), "push 0 61".into()]),
                Box::new(move |_| vec![format!("shrink_to 0 {big}"), "push 0 61".into()]),
                Box::new(|_| vec!["shrink_to 0 0".into(), "push 0 61".into()]),
                Box::new(|_| vec!["shrink_to 0 16".into(), "shrink_to 0 17".into(), "push 0 61".into()]),
                Box::new(|l| vec![format!("truncate 0 {l}"), "push 0 61".into()]),
                Box::new(|l| vec![format!("try_truncate 0 {}", l + 1), "push 0 61".into()]),
                Box::new(|l| vec![format!("insert_str 0 {l} -"), format!("insert_str 0 0 -"), "push 0 61".into()]),
                Box::new(|l| vec![format!("insert_str 0 {l} {}", h("€")), "pop 0".into()]),
                Box::new(|_| vec!["insert 0 0 c3a9".into(), "remove 0 0".into()]),
                Box::new(|_| vec!["pop 0".into(), "push 0 f09d849e".into()]),
                Box::new(|_| vec!["clear 0".into(), "shrink_to_fit 0".into(), "push 0 61".into()]),
                Box::new(|_| vec!["clear 0".into(), "push 0 61".into(), "shrink_to_fit 0".into()]),
                Box::new(|_| vec!["retain 0 T".into(), "push 0 61".into()]),
                Box::new(|_| vec!["retain 0 F".into(), "push 0 61".into()]),
                Box::new(|_| vec!["clone 3 0".into(), "push 0 61".into(), "push 3 62".into()]),
                Box::new(|_| vec!["clone 3 0".into(), "clone_from 0 3".into(), "push 0 61".into()]),
                Box::new(|_| vec!["add 0 -".into(), "add_assign 0 -".into(), "push_str 0 -".into(), "extend_strs 0 -".into(), "push 0 61".into()]),
                Box::new(|_| vec!["push 0 61".into(), "push 0 c3a9".into(), "push 0 e282ac".into(), "push 0 f09d849e".into()]),
            ];
            for (pi, probe) in probes.iter().enumerate() {
                if n < 2 && (pi + rounds + setup.len()) % 2 == 1 && rng.chance(0) {
                    continue;
                }
                sink.line("reset");
                sink.lines(setup);
                let l = cur_len(sink);
                for line in probe(l) {
                    sink.line(&line);
                }
            }
        }
    }
}

// ------------------------------------------------------------------------------------------ C01
fn tour(rng: &mut Rng, n: usize, sink: &mut Sink) {
    for k in 0..n {
        sink.line("reset");
        // inline -> heap -> shared -> truncated while shared -> unique again -> static -> inline
        let start = tl(rng, 9, 8);
        sink.line(&format!("from 0 {}", h(&start)));
        let mut step = |sink: &mut Sink, rng: &mut Rng, target: usize| {
            if let Some(o) = sink.ex.observe(target) {
                let ms = mutators(rng, &o.text, target);
                let m = &ms[(k + rng.below(ms.len())) % ms.len()];
                sink.line(m);
            }
        };
        step(sink, rng, 0);
        sink.line(&format!("push_str 0 {}", h(&tl(rng, 10, 30))));
        step(sink, rng, 0);
        sink.line("clone 1 0");
        step(sink, rng, 0);
        if !sink.ex.live(1) {
            continue;
        }
        sink.line("clone 2 1");
        let l = sink.ex.observe(1).map(|o| o.text).unwrap_or_default();
        sink.line(&format!("truncate 1 {}", gn::index(rng, &l)));
        step(sink, rng, 1);
        step(sink, rng, 2);
        sink.line("drop 2");
        step(sink, rng, 1);
        step(sink, rng, 1);
        sink.line(&format!("from_static 3 {}", rng.below(STATIC_TEXTS.len())));
        step(sink, rng, 3);
        sink.line("clone 4 3");
        let l = sink.ex.observe(4).map(|o| o.text).unwrap_or_default();
        sink.line(&format!("truncate 4 {}", gn::index(rng, &l).min(16)));
        step(sink, rng, 4);
        step(sink, rng, 4);
        step(sink, rng, 3);
    }
    // every possible final byte of a full inline string, then each mutator
    let fulls = full_inline_texts();
    for (i, t) in fulls.iter().enumerate() {
        if n < 1000 && i % 4 != (n % 4) {
            continue;
        }
        let ms = mutators(rng, t, 0);
        for m in ms.iter().take(9) {
            sink.line("reset");
            sink.line(&format!("from 0 {}", hex(t)));
            sink.line(m);
            sink.line("pop 0");
            sink.line("push 0 7a");
        }
    }
}

// ------------------------------------------------------------------------------------------ C02
fn ladder(rng: &mut Rng, n: usize, sink: &mut Sink) {
    for _ in 0..n {
        sink.line("reset");
        let text = if rng.chance(30) { tl(rng, 17, 60) } else { T20.to_string() };
        let from_static = rng.chance(15);
        if from_static {
            sink.line(&format!("from_static 0 {}", rng.below(4)));
        } else {
            sink.line(&format!("from 0 {}", h(&text)));
        }
        let k = 1 + rng.below(3);
        for j in 1..=k {
            sink.line(&format!("{} {j} {}", rng.pick(&["clone", "from_ref", "to_ls"]), rng.below(j)));
        }
        // truncate one while shared
        let a = rng.below(k + 1);
        let ta = sink.ex.observe(a).map(|o| o.text).unwrap_or_default();
        sink.line(&format!("truncate {a} {}", gn::index(rng, &ta)));
        // refused-then-continue on some handle
        if rng.chance(40) {
            let b = rng.below(k + 1);
            match rng.below(3) {
                0 => sink.line(&format!("try_reserve {b} 18446744073709551515")),
                1 => sink.line(&format!("extend_chars {b} 18446744073709551000 -")),
                _ => sink.line("fault 0"),
            }
        }
        // drop another
        if k >= 2 && rng.chance(60) {
            let d = (a + 1) % (k + 1);
            sink.line(&format!("drop {d}"));
        }
        // in-place ops on every remaining handle, in random order, twice
        for _ in 0..2 {
            for j in 0..=k {
                let t = (j + a) % (k + 1);
                if let Some(o) = sink.ex.observe(t) {
                    let ms = mutators(rng, &o.text, t);
                    let m = rng.pick(&ms).clone();
                    sink.line(&m);
                }
            }
        }
        if rng.chance(50) && sink.ex.live(0) && sink.ex.live(1) {
            sink.line("clone_from 0 1");
            sink.line("push 0 61");
        }
    }
}

// ------------------------------------------------------------------------------------------ C05
fn faultsweep(rng: &mut Rng, n: usize, sink: &mut Sink) {
    for _ in 0..n {
        // base script: recorded while it runs
        sink.line("reset");
        let mut lines: Vec<String> = vec![];
        let len = 5 + rng.below(9);
        for _ in 0..len {
            let mut l = gn::random_op(rng, &sink.ex);
            while l.starts_with("fault") {
                l = gn::random_op(rng, &sink.ex);
            }
            sink.line(&l);
            lines.push(l);
        }
        let reqs = crate::shadow::with(|s| s.reqs) as usize;
        // each request refused in turn
        for k in 0..reqs.min(14) {
            sink.line("reset");
            sink.line(&format!("faultabs {k}"));
            for l in &lines {
                sink.line(l);
            }
        }
        // pairs
        if reqs >= 2 {
            for _ in 0..reqs.min(4) {
                let a = rng.below(reqs);
                let b = rng.below(reqs + 1);
                sink.line("reset");
                sink.line(&format!("faultabs {a}"));
                sink.line(&format!("faultabs {b}"));
                for l in &lines {
                    sink.line(l);
                }
            }
        }
    }
}

// ------------------------------------------------------------------------------------------ C06
fn boundary_sizes(len: usize) -> Vec<usize> {
    let mut v = vec![0usize, 1, 15, 16, 17];
    for k in 1..64 {
        let p = 1usize << k;
        for d in [-2i64, -1, 0, 1, 2] {
            v.push(p.wrapping_add(d as usize));
            v.push(p.wrapping_add(d as usize).wrapping_sub(len));
        }
    }
    let m56 = (1usize << 56) - 1;
    for base in [m56, isize::MAX as usize, usize::MAX] {
        for d in 0..=2 {
            v.push(base.wrapping_sub(d));
            v.push(base.wrapping_add(d));
            v.push(base.wrapping_sub(len).wrapping_sub(d));
            v.push(base.wrapping_sub(len).wrapping_add(d));
        }
    }
    v.sort();
    v.dedup();
    v
}

fn sizes(rng: &mut Rng, n: usize, sink: &mut Sink) {
    let pres = gn::prestates();
    for (pi, (_name, pre)) in pres.iter().enumerate() {
        let len = 20;
        let bs = boundary_sizes(len);
        for (si, &s) in bs.iter().enumerate() {
            // quick tier: a third of the sizes per pre-state (rotating), thorough: all
            if n < 2 && (si + pi) % 3 != 0 {
                continue;
            }
            let ops = [
                format!("try_reserve 0 {s}"),
                format!("reserve 0 {s}"),
                format!("try_shrink_to 0 {s}"),
                format!("extend_chars 0 {s} 61,c3a9"),
                format!("try_with_capacity 5 {s}"),
                format!("with_capacity 5 {s}"),
                format!("collect_chars 5 {s} 61,62"),
            ];
            let op = &ops[(si + pi + rng.below(2)) % ops.len()];
            sink.line("reset");
            sink.lines(pre);
            sink.line(op);
            // the string (and its siblings) stay fully usable
            sink.line("push 0 7a");
            sink.line("remove 0 0");
            if sink.ex.live(1) {
                sink.line("push 1 79");
            }
        }
    }
}

// ------------------------------------------------------------------------------------------ C07
fn indexgrid(rng: &mut Rng, n: usize, sink: &mut Sink) {
    let mut texts: Vec<String> = vec![
        "".into(), "a".into(), "é".into(), "€".into(), "𝄞".into(), "aé€𝄞".into(), "𝄞€éa".into(),
        "0123456789abcde".into(), "0123456789abcdef".into(), "0123456789abcdé".into(), "0123456789abc€".into(),
        "0123456789ab𝄞".into(), "0123456789abcdefg".into(), T20.into(), "ééééééééé".into(), "€€€€€€".into(), "𝄞𝄞𝄞𝄞𝄞".into(),
    ];
    for _ in 0..(8 * n) {
        texts.push(tl(rng, 1, 40));
    }
    for (ti, text) in texts.iter().enumerate() {
        let mut sts = states(rng, text);
        sts.push(("static", vec![]));
        for (sname, setup) in &sts {
            for i in 0..=text.len() + 4 {
                // plain and `try_` form of every indexed operation, with empty, one-character and longer arguments
                let ops = [
                    format!("insert 0 {i} {}", h(gn::rand_char(rng))),
                    format!("try_insert_str 0 {i} {}", h(&gn::short_text(rng))),
                    format!("remove 0 {i}"),
                    format!("try_remove 0 {i}"),
                    format!("truncate 0 {i}"),
                    format!("try_truncate 0 {i}"),
                    format!("insert_str 0 {i} -"),
                    format!("insert_str 0 {i} {}", h(&gn::short_text(rng))),
                    format!("try_insert 0 {i} {}", h(gn::rand_char(rng))),
                    format!("try_insert_str 0 {i} -"),
                    format!("insert_str 0 {i} {}", h("xy")),
                ];
                for (oi, op) in ops.iter().enumerate() {
                    if n < 2 && (oi + i + ti) % 2 != 0 {
                        continue;
                    }
                    sink.line("reset");
                    if *sname == "static" {
                        // a static text of the same shape: use the fixed statics with an index grid
                        let sid = ti % STATIC_TEXTS.len();
                        sink.line(&format!("from_static 0 {sid}"));
                        sink.line("clone 1 0");
                    } else {
                        sink.lines(setup);
                    }
                    sink.line(op);
                }
            }
        }
    }
}

// ------------------------------------------------------------------------------------------ C08
fn clones(rng: &mut Rng, n: usize, sink: &mut Sink) {
    let lens: Vec<usize> = vec![0, 1, 15, 16, 17, 18, 100, 1000, 5000];
    for it in 0..n {
        sink.line("reset");
        // a few very long texts (tens / hundreds of KiB): cloning must still not copy
        let l = if it % 151 == 7 { if n >= 1000 { 300000 } else { 20000 } } else { lens[it % lens.len()] };
        sink.line("limit 8388608");
        match it % 5 {
            0 => sink.line(&format!("from_static 0 {}", rng.below(STATIC_TEXTS.len()))),
            1 => {
                sink.line(&format!("with_capacity 0 {}", l + rng.below(50)));
                sink.line(&format!("push_str 0 {}", h(&gn::text_of_len(rng, l))));
            }
            _ => sink.line(&format!("from 0 {}", h(&gn::text_of_len(rng, l)))),
        }
        // a handle whose length differs from the buffer's other users
        sink.line("clone 1 0");
        let t = sink.ex.observe(1).map(|o| o.text).unwrap_or_default();
        sink.line(&format!("truncate 1 {}", gn::index(rng, &t)));
        for j in 2..6 {
            let src = rng.below(j);
            sink.line(&format!("{} {j} {src}", rng.pick(&["clone", "from_ref", "to_ls"])));
        }
        sink.line("clone_from 2 1");
        sink.line("clone_from 3 0");
        // dropping either leaves the other intact
        sink.line(&format!("drop {}", rng.below(6)));
        sink.line(&format!("drop {}", rng.below(6)));
        for j in 0..6 {
            if sink.ex.live(j) && rng.chance(40) {
                sink.line(&format!("push {j} 61"));
            }
        }
    }
}

// ------------------------------------------------------------------------------------------ C09 / C20
fn inline(rng: &mut Rng, n: usize, sink: &mut Sink, niche: bool) {
    let routes = ["from", "try_from", "from_string", "from_box", "from_cow", "from_ref_string", "from_unchecked"];
    // all lengths 0..=17 x final bytes x construction routes
    let mut texts: Vec<Vec<u8>> = full_inline_texts();
    for l in 0..=17 {
        for _ in 0..(3 * n.max(1)) {
            texts.push(gn::text_of_len(rng, l).into_bytes());
        }
    }
    for (i, t) in texts.iter().enumerate() {
        sink.line("reset");
        let r = routes[i % routes.len()];
        sink.line(&format!("{r} 0 {}", hex(t)));
        sink.line("clone 1 0");
        // edits that stay within 16 bytes
        let edits = [
            "pop 0".to_string(),
            "push 0 61".into(),
            "truncate 0 3".into(),
            "remove 0 0".into(),
            "insert 0 0 62".into(),
            "retain 0 TFTFTFTFTFTFTFTF".into(),
            "clear 0".into(),
            format!("insert_str 0 1 {}", h("é")),
            "reserve 0 0".into(),
            "shrink_to_fit 0".into(),
            "push_str 0 -".into(),
        ];
        for k in 0..3 {
            sink.line(&edits[(i + k * 5 + rng.below(edits.len())) % edits.len()]);
        }
        if niche {
            // C20: Some(s) is never mistaken for None
            let cur: Option<LeanString> = sink.ex.pool.first().cloned().flatten();
            if let Some(s) = cur {
                let o: Option<LeanString> = Some(s.clone());
                let oo: Option<Option<LeanString>> = Some(o.clone());
                sink.oracle.evaluations += 1;
                if o.is_none() || oo.is_none() || oo.as_ref().unwrap().is_none() || o.as_ref().map(|x| x.as_bytes()) != Some(s.as_bytes()) {
                    sink.fail(&["C20"], format!("Some(s) mistaken for None (or altered) for s = {}", hex(s.as_bytes())));
                }
                let mut slot = o;
                let taken = slot.take();
                if taken.is_none() || slot.is_some() {
                    sink.fail(&["C20"], format!("Option::take misbehaves for s = {}", hex(s.as_bytes())));
                }
            }
        }
    }
    // integers whose text has 15, 16 and 17 characters, through every 64-bit route; exact capacities
    for (k, ty) in ["u64", "i64", "usize", "isize", "nz_u64", "nz_i64", "u128", "i128"].iter().enumerate() {
        sink.line("reset");
        sink.line(&format!("int 0 {ty} {}", 10u64.pow(14) + k as u64));
        sink.line(&format!("int 1 {ty} {}", 10u64.pow(15) + 7 * k as u64));
        sink.line(&format!("int 2 {ty} {}", 10u64.pow(16) - 1));
        sink.line(&format!("int 3 {ty} {}", 10u64.pow(16) + k as u64));
        if ty.starts_with('i') || ty.starts_with("nz_i") {
            sink.line(&format!("int 4 {ty} -{}", 10u64.pow(14) + 3));
            sink.line(&format!("int 5 {ty} -{}", 10u64.pow(15) + 3));
        }
    }
    for n in 0..=18usize {
        sink.line("reset");
        sink.line(&format!("with_capacity 0 {n}"));
        sink.line(&format!("try_with_capacity 1 {n}"));
        let its = if n == 0 { "-".to_string() } else { vec![h("a"); n].join(",") };
        sink.line(&format!("collect_chars 2 exact {its}"));
        sink.line(&format!("collect_chars 3 {n} -"));
    }
    // chars, bools, with_capacity <= 16, static <= 16
    for c in ["a", "é", "€", "𝄞"] {
        sink.line("reset");
        sink.line(&format!("from_char 0 {}", h(c)));
        sink.line("from_bool 1 1");
        sink.line("from_bool 2 0");
        sink.line(&format!("with_capacity 3 {}", rng.below(17)));
        sink.line("from_static 4 4");
        sink.line("from_static 5 5");
    }
    if niche {
        sink.oracle.distinct_nontrivial = sink.oracle.evaluations;
        sink.oracle.samples.push("Some(s).is_some(), Some(Some(s)), take() for every 16th byte of a full inline string, heap and static strings".into());
        if size_of::<LeanString>() != 16 || size_of::<Option<LeanString>>() != 16 || align_of::<LeanString>() != 8 {
            sink.fail(&["C20"], "LeanString / Option<LeanString> are not two machine words".into());
        }
        // every value a *byte-accepting* safe constructor can return for inputs of 15..=17 bytes with every possible
        // last byte (and every possible 16th byte): whatever it accepts or repairs, the result is valid UTF-8 and
        // `Some(v)` / `Some(Some(v))` are not read back as `None` / `Some(None)`
        for total in [15usize, 16, 17] {
            for prefix_kind in 0..2 {
                for b in 0..=255u8 {
                    for pos_from_end in [1usize, 2] {
                        let mut bytes: Vec<u8> = if prefix_kind == 0 {
                            (0..total).map(|i| b'a' + (i % 26) as u8).collect()
                        } else {
                            "é€é€é€é€é€é€".bytes().take(total).collect()
                        };
                        let k = total - pos_from_end;
                        bytes[k] = b;
                        let mut vals: Vec<(&str, LeanString)> = vec![("from_utf8_lossy", LeanString::from_utf8_lossy(&bytes))];
                        if let Ok(v) = LeanString::from_utf8(&bytes) {
                            if std::str::from_utf8(&bytes).is_err() {
                                sink.fail(&["C20", "C16"], format!("from_utf8 accepted the invalid input {}", hex(&bytes)));
                            }
                            vals.push(("from_utf8", v));
                        }
                        for (how, v) in vals {
                            sink.oracle.evaluations += 1;
                            let o = Some(v.clone());
                            let oo = Some(Some(v.clone()));
                            if o.is_none() || oo.as_ref().map(|x| x.is_none()).unwrap_or(true) || std::str::from_utf8(v.as_bytes()).is_err() {
                                sink.fail(&["C20"], format!("{how}({}) returned a value whose Option wrapping reads back as None, or that is not UTF-8: {}", hex(&bytes), hex(v.as_bytes())));
                            }
                        }
                    }
                }
            }
        }
        for l in [17usize, 18, 100, 255, 256, 257, 65535, 65536, 70000] {
            let s = LeanString::from(gn::text_of_len(rng, l).as_str());
            let st = LeanString::from_static_str(STATIC_TEXTS[l % 4]);
            for v in [s, st] {
                let o = Some(v.clone());
                sink.oracle.evaluations += 1;
                if o.is_none() || o.as_ref().unwrap().as_bytes() != v.as_bytes() {
                    sink.fail(&["C20"], format!("Some(s) mistaken for None for a string of length {}", v.len()));
                }
            }
        }
    }
}

// ------------------------------------------------------------------------------------------ C10
fn statics(rng: &mut Rng, n: usize, sink: &mut Sink) {
    for it in 0..n {
        sink.line("reset");
        let sid = it % STATIC_TEXTS.len();
        sink.line(&format!("from_static 0 {sid}"));
        sink.line("clone 1 0");
        sink.line("from_ref 2 0");
        let t = sink.ex.observe(0).map(|o| o.text).unwrap_or_default();
        match it % 4 {
            0 => {
                sink.line("pop 0");
                sink.line("pop 0");
            }
            1 => sink.line(&format!("truncate 0 {}", gn::index(rng, &t))),
            2 => sink.line("clear 0"),
            _ => {
                // truncate below the inline limit, then grow
                let mut i = 7.min(t.len());
                while i > 0 && i < t.len() && (t[i] & 0xC0) == 0x80 {
                    i -= 1;
                }
                sink.line(&format!("truncate 0 {i}"));
            }
        }
        sink.line("clone 3 0");
        // the first write on each handle
        for target in [0usize, 1, 2, 3] {
            if let Some(o) = sink.ex.observe(target) {
                let ms = mutators(rng, &o.text, target);
                sink.line(&ms[(it / 4 + target * 3) % ms.len()].clone());
            }
        }
        // two clones diverging
        sink.line("push 1 61");
        sink.line("push 2 62");
        sink.line("insert_str 0 0 -");
        // clone_from with a static source (full length, and shortened) into every kind of destination:
        // the destination must end up borrowing the same static bytes, without any allocator request
        sink.line(&format!("from_static 4 {sid}"));
        sink.line(&format!("from_static 5 {sid}"));
        let t5 = sink.ex.observe(5).map(|o| o.text).unwrap_or_default();
        sink.line(&format!("truncate 5 {}", gn::index(rng, &t5)));
        sink.line(&format!("with_capacity 6 {}", 150 + rng.below(100)));      // unique heap with spare room
        let l6 = 3 + rng.below(40);
        sink.line(&format!("push_str 6 {}", h(&gn::text_of_len(rng, l6))));
        sink.line(&format!("from_static 7 {}", (sid + 1) % STATIC_TEXTS.len()));  // another static text
        let (l8, l9) = (rng.below(16), 20 + rng.below(30));
        sink.line(&format!("from 8 {}", h(&gn::text_of_len(rng, l8))));  // inline
        sink.line(&format!("from 9 {}", h(&gn::text_of_len(rng, l9))));
        sink.line("clone 10 9");                                                // shared heap
        let srcs = [4usize, 5];
        for (k, d) in [6usize, 7, 8, 9].iter().enumerate() {
            sink.line(&format!("clone_from {d} {}", srcs[(it + k) % 2]));
        }
        sink.line("push 6 63");
        sink.line("pop 7");
    }
}

// ------------------------------------------------------------------------------------------ C11
fn capacity(rng: &mut Rng, n: usize, sink: &mut Sink) {
    for it in 0..n {
        sink.line("reset");
        let cap = *rng.pick(&[0usize, 1, 15, 16, 17, 18, 20, 32, 33, 64, 100, 1000]);
        match it % 4 {
            0 => sink.line(&format!("with_capacity 0 {cap}")),
            1 => {
                sink.line(&format!("from 0 {}", h(&gn::rand_text(rng))));
                sink.line(&format!("reserve 0 {cap}"));
            }
            2 => {
                sink.line(&format!("from_static 0 {}", rng.below(STATIC_TEXTS.len())));
                sink.line(&format!("reserve 0 {cap}"));
            }
            _ => {
                sink.line(&format!("from 0 {}", h(&gn::rand_text(rng))));
                sink.line("clone 1 0");
                sink.line(&format!("try_reserve 0 {cap}"));
            }
        }
        // fill exactly up to the reported capacity, one step beyond, with every appender
        for _ in 0..6 {
            if let Some(o) = sink.ex.observe(0) {
                let room = o.cap - o.len;
                let want = match rng.below(4) {
                    0 => room,
                    1 => room.saturating_sub(1),
                    2 => 1,
                    _ => room + 1,
                };
                let t = gn::text_of_len(rng, want.min(2000));
                match rng.below(3) {
                    0 => sink.line(&format!("push_str 0 {}", h(&t))),
                    1 => sink.line(&format!("insert_str 0 {} {}", gn::index(rng, &o.text), h(&t))),
                    _ => sink.line(&format!("push 0 {}", h(gn::rand_char(rng)))),
                }
            }
        }
    }
}

// ------------------------------------------------------------------------------------------ C12
fn growth(rng: &mut Rng, n: usize, sink: &mut Sink) {
    // push-one-char loops; the number of allocator requests must be logarithmic
    for (ci, c) in ["a", "é", "€", "𝄞"].iter().enumerate() {
        let count = if n >= 4 { 30000 } else { 2500 };
        sink.line("reset");
        sink.line("limit 8388608");
        match ci {
            0 => sink.line("new 0"),
            1 => sink.line(&format!("from 0 {}", h(T20))),
            2 => sink.line("from_static 0 2"),
            _ => {
                sink.line(&format!("from 0 {}", h(T20)));
                sink.line("clone 1 0");
            }
        }
        let start_len = sink.ex.observe(0).map(|o| o.len).unwrap_or(0);
        let before = crate::shadow::with(|s| s.reqs);
        for _ in 0..count {
            sink.line(&format!("push 0 {}", h(c)));
        }
        let reqs = crate::shadow::with(|s| s.reqs) - before;
        let final_len = (start_len + count * c.len()) as f64;
        let bound = 3.0 + (final_len / (start_len.max(16) as f64)).ln() / 1.5f64.ln();
        sink.oracle.evaluations += 1;
        sink.oracle.detail.push((format!("push-loop {count} x {}-byte char: requests", c.len()), reqs));
        if reqs as f64 > bound {
            sink.fail(&["C12"], format!("{count} pushes of a {}-byte char issued {reqs} allocator requests (bound {bound:.1})", c.len()));
        }
    }
    // the same bound for every other way of appending (a growth rule is easy to get right for `push` and wrong elsewhere)
    for (oi, op) in ["push_str", "insert_str_end", "insert_front", "extend_strs", "write", "add_assign", "add", "reserve1_push"].iter().enumerate() {
        let count = if n >= 4 { 6000 } else { 1200 };
        sink.line("reset");
        sink.line("limit 8388608");
        match oi % 3 {
            0 => sink.line("new 0"),
            1 => sink.line("from_static 0 2"),
            _ => {
                sink.line(&format!("from 0 {}", h(T20)));
                sink.line("clone 1 0");
            }
        }
        let start_len = sink.ex.observe(0).map(|o| o.len).unwrap_or(0);
        let before = crate::shadow::with(|s| s.reqs);
        let piece = "ab€";
        for k in 0..count {
            let len = start_len + k * piece.len();
            match *op {
                "push_str" => sink.line(&format!("push_str 0 {}", h(piece))),
                "insert_str_end" => sink.line(&format!("insert_str 0 {len} {}", h(piece))),
                "insert_front" => sink.line(&format!("insert_str 0 0 {}", h(piece))),
                "extend_strs" => sink.line(&format!("extend_strs 0 {}", h(piece))),
                "write" => sink.line(&format!("write 0 {},{}", h("ab"), h("€"))),
                "add_assign" => sink.line(&format!("add_assign 0 {}", h(piece))),
                "add" => sink.line(&format!("add 0 {}", h(piece))),
                _ => {
                    sink.line("reserve 0 1");
                    sink.line(&format!("push_str 0 {}", h(piece)));
                }
            }
        }
        let reqs = crate::shadow::with(|s| s.reqs) - before;
        let final_len = (start_len + count * piece.len()) as f64;
        let bound = 3.0 + (final_len / (start_len.max(16) as f64)).ln() / 1.5f64.ln();
        sink.oracle.evaluations += 1;
        sink.oracle.detail.push((format!("{op} loop {count} x 5 bytes: requests"), reqs));
        if reqs as f64 > bound {
            sink.fail(&["C12"], format!("{count} appends of 5 bytes through {op} issued {reqs} allocator requests (bound {bound:.1})"));
        }
    }
    // the same bound far beyond a megabyte: direct calls, no script (the model would have to carry the megabytes) --
    // a growth rule that turns additive for large strings shows only here
    {
        sink.line("reset");
        let old_limit = crate::shadow::with(|s| std::mem::replace(&mut s.limit, 1usize << 31));
        let chunk = "0123456789abcdef".repeat(4096); // 64 KiB
        for shared_start in [false, true] {
            let mut s = lean_string::LeanString::from(T20);
            let keep = if shared_start { Some(s.clone()) } else { None };
            let before = crate::shadow::with(|s| s.reqs);
            let chunks = 512usize;
            for _ in 0..chunks {
                s.push_str(&chunk);
            }
            let reqs = crate::shadow::with(|s| s.reqs) - before;
            let final_len = (T20.len() + chunks * chunk.len()) as f64;
            let bound = 3.0 + (final_len / 16.0).ln() / 1.5f64.ln();
            sink.oracle.evaluations += 1;
            sink.oracle.detail.push((format!("push_str loop {chunks} x 64 KiB ({}): requests", if shared_start { "shared start" } else { "unique start" }), reqs));
            if reqs as f64 > bound {
                sink.fail(&["C12"], format!("{chunks} push_str calls of 64 KiB each (final length {} bytes, {}) issued {reqs} allocator requests (bound {bound:.1})",
                    final_len as u64, if shared_start { "shared start" } else { "unique start" }));
            }
            if s.len() != final_len as usize {
                sink.fail(&["C01"], format!("after {chunks} push_str calls of 64 KiB the length is {}", s.len()));
            }
            drop(s);
            drop(keep);
        }
        crate::shadow::with(|s| s.limit = old_limit);
    }
    sink.oracle.distinct_nontrivial = sink.oracle.evaluations;
    sink.oracle.samples.push("push-one-char loops from empty / heap / static / shared starts; push_str loops of 64 KiB chunks up to 32 MiB".into());
    // every growth route at many lengths
    for _ in 0..(300 * n.max(1)) {
        sink.line("reset");
        let l = *rng.pick(&[0usize, 5, 15, 16, 17, 20, 31, 33, 64, 100, 333, 1000]);
        let add = *rng.pick(&[0usize, 1, 2, 8, 16, 17, 50, 51, 500, 2000]);
        match rng.below(4) {
            0 => sink.line(&format!("from 0 {}", h(&gn::text_of_len(rng, l)))),
            1 => sink.line(&format!("from_static 0 {}", rng.below(STATIC_TEXTS.len()))),
            2 => {
                sink.line(&format!("from 0 {}", h(&gn::text_of_len(rng, l))));
                sink.line("clone 1 0");
            }
            _ => {
                sink.line(&format!("with_capacity 0 {}", l + rng.below(30)));
                sink.line(&format!("push_str 0 {}", h(&gn::text_of_len(rng, l))));
            }
        }
        match rng.below(4) {
            0 => sink.line(&format!("reserve 0 {add}")),
            1 => sink.line(&format!("push_str 0 {}", h(&gn::text_of_len(rng, add)))),
            2 => {
                let t = sink.ex.observe(0).map(|o| o.text).unwrap_or_default();
                sink.line(&format!("insert_str 0 {} {}", gn::index(rng, &t), h(&gn::text_of_len(rng, add))))
            }
            _ => sink.line(&format!("push 0 {}", h(gn::rand_char(rng)))),
        }
        sink.line("push 0 61");
    }
}

// ------------------------------------------------------------------------------------------ C13
fn shrink(rng: &mut Rng, n: usize, sink: &mut Sink) {
    let ratios: [(usize, usize); 8] = [(20, 20), (100, 110), (100, 150), (100, 200), (30, 300), (5, 40), (16, 40), (17, 18)];
    for &(len, cap) in &ratios {
        let ms = [0usize, len.saturating_sub(1), len, len + 1, cap - 1, cap, cap + 1, 16, 17, usize::MAX, (cap + len) / 2];
        for &m in &ms {
            for share in 0..4 {
                for tr in ["", "try_"] {
                    if n < 2 && (m + share) % 2 == 1 && tr == "try_" {
                        continue;
                    }
                    sink.line("reset");
                    sink.line(&format!("with_capacity 0 {cap}"));
                    sink.line(&format!("push_str 0 {}", h(&gn::text_of_len(rng, len))));
                    match share {
                        1 => sink.line("clone 1 0"),
                        2 => {
                            sink.line("clone 1 0");
                            sink.line("truncate 1 2");
                        }
                        3 => {
                            sink.line("clone 1 0");
                            sink.line("truncate 0 3");
                        }
                        _ => {}
                    }
                    if m == 0 && tr.is_empty() {
                        sink.line("shrink_to_fit 0");
                    } else {
                        sink.line(&format!("{tr}shrink_to 0 {m}"));
                    }
                    sink.line("push 0 61");
                    if share > 0 {
                        sink.line("shrink_to_fit 1");
                    }
                }
            }
        }
    }
    for sid in 0..STATIC_TEXTS.len() {
        sink.line("reset");
        sink.line(&format!("from_static 0 {sid}"));
        sink.line("shrink_to_fit 0");
        sink.line(&format!("shrink_to 0 {}", rng.below(40)));
    }
}

// ------------------------------------------------------------------------------------------ C18
fn callbacks(rng: &mut Rng, n: usize, sink: &mut Sink) {
    let lens = if n >= 3 { vec![0usize, 1, 2, 5, 15, 16, 17, 20, 40] } else { vec![0usize, 1, 5, 16, 17, 24] };
    for &l in &lens {
        let text = gn::text_of_len(rng, l);
        let nchars = text.chars().count();
        let mut sts = states(rng, &text);
        sts.push(("static", vec![format!("from_static 0 {}", l % STATIC_TEXTS.len()), "clone 1 0".into()]));
        for (_s, setup) in &sts {
            for k in 0..=nchars + 1 {
                // retain: the k-th invocation panics
                let mut p: String = (0..nchars.max(k) + 1).map(|i| if i % 3 == 1 { 'F' } else { 'T' }).collect();
                p.replace_range(k..k + 1, "P");
                sink.line("reset");
                sink.lines(setup);
                sink.line(&format!("{} 0 {p}", if k % 2 == 0 { "retain" } else { "try_retain" }));
                sink.line("push 0 61");
                // extend / collect / display: the k-th item panics
                if k <= 12 {
                    let mut items: Vec<String> = (0..k).map(|_| h(gn::rand_char(rng))).collect();
                    items.push("P".into());
                    items.push(h("z"));
                    let it = items.join(",");
                    sink.line("reset");
                    sink.lines(setup);
                    sink.line(&format!("extend_chars 0 {} {it}", rng.below(30)));
                    sink.line("push 0 61");
                    sink.line("reset");
                    sink.lines(setup);
                    sink.line(&format!("extend_strs 0 {it}"));
                    sink.line(&format!("collect_chars 4 {} {it}", rng.below(30)));
                    sink.line(&format!("collect_strs 5 {it}"));
                    sink.line(&format!("display 3 {it}"));
                    sink.line("push 0 61");
                }
            }
        }
    }
    // long accumulations that reach the heap before the panic
    for k in [17usize, 18, 30, 60] {
        let mut items: Vec<String> = (0..k).map(|_| h(gn::rand_char(rng))).collect();
        items.push("P".into());
        let it = items.join(",");
        sink.line("reset");
        sink.line(&format!("collect_chars 0 0 {it}"));
        sink.line(&format!("collect_chars 1 {k} {it}"));
        sink.line(&format!("collect_strs 2 {it}"));
        sink.line(&format!("display 3 {it}"));
    }
}

// ------------------------------------------------------------------------------------------ C14
const INT_TYPES: [(&str, i128, i128); 12] = [
    ("u8", 0, u8::MAX as i128), ("i8", i8::MIN as i128, i8::MAX as i128),
    ("u16", 0, u16::MAX as i128), ("i16", i16::MIN as i128, i16::MAX as i128),
    ("u32", 0, u32::MAX as i128), ("i32", i32::MIN as i128, i32::MAX as i128),
    ("u64", 0, u64::MAX as i128), ("i64", i64::MIN as i128, i64::MAX as i128),
    ("usize", 0, usize::MAX as i128), ("isize", isize::MIN as i128, isize::MAX as i128),
    ("u128", 0, i128::MAX), ("i128", i128::MIN, i128::MAX),
];

fn ints(rng: &mut Rng, n: usize, sink: &mut Sink) {
    // both entry points (`to_lean_string`, `try_to_lean_string`) on the extremes of every integer type and NonZero form
    let tl = crate::traitsuite::to_lean_string_types(sink);
    sink.oracle.evaluations += tl;
    let mut d = 0usize;
    let mut emit = |sink: &mut Sink, ty: &str, v: i128, nz: bool| {
        if d % 6 == 0 {
            sink.line("reset");
        }
        let ty = if nz && v != 0 { format!("nz_{ty}") } else { ty.to_string() };
        sink.line(&format!("int {} {ty} {v}", d % 6));
        d += 1;
    };
    for &(ty, lo, hi) in &INT_TYPES {
        let mut vals: Vec<i128> = vec![lo, lo + 1, hi, hi - 1, 0, 1, -1];
        let mut p: i128 = 1;
        for _ in 0..39 {
            for dd in -3..=3 {
                vals.push(p + dd);
                vals.push(-p + dd);
            }
            if p > i128::MAX / 10 {
                break;
            }
            p *= 10;
        }
        for k in 0..127 {
            let q: i128 = 1i128 << k;
            for dd in -3..=3 {
                vals.push(q + dd);
                vals.push(-q + dd);
            }
        }
        // q * 10^m + r for the chunk sizes digit-peeling loops use (10^2, 10^4, 10^8, 10^16), remainders at both ends of a
        // chunk (0, 1, 10^m - 1: runs of nines) and quotients at the top of the type, in the middle and at random: an
        // inexact division or a wrong carry between chunks shows only for such values
        for m in [2u32, 4, 8, 16] {
            let c = 10i128.pow(m);
            let top = hi / c;
            let mut qs: Vec<i128> = vec![top, top - 1, top / 2, top / 3 + 1, 1, 9, 10, 99];
            for _ in 0..(if n >= 4 { 400 } else { 40 }) {
                qs.push(((rng.next() as u128) % (top.max(1) as u128 + 1)) as i128);
            }
            for q in qs {
                for r in [0i128, 1, c - 1, c - 2, c / 10, c / 10 - 1] {
                    let v = q * c + r;
                    vals.push(v);
                    vals.push(-v);
                }
            }
        }
        if ty == "u8" || ty == "i8" || ty == "u16" || ty == "i16" {
            // exhaustive for the 8- and 16-bit types
            vals = (lo..=hi).collect();
        }
        for v in vals {
            if v >= lo && v <= hi {
                emit(sink, ty, v, false);
                if v % 7 == 0 || v.abs() < 300 {
                    emit(sink, ty, v, true);
                }
            }
        }
        // random, stratified by digit count
        let per = (n / INT_TYPES.len()).max(100);
        for i in 0..per {
            let digits = 1 + (i % 39) as u32;
            let mag: i128 = if digits >= 39 { i128::MAX } else { 10i128.pow(digits) };
            let r = ((rng.next() as u128) << 64 | rng.next() as u128) as i128;
            let mut v = (r % mag).abs();
            if lo < 0 && rng.chance(50) {
                v = -v;
            }
            if v >= lo && v <= hi {
                emit(sink, ty, v, i % 5 == 0);
            }
        }
    }
}

fn ints_exhaustive32(sink: &mut Sink) {
    // all 2^32 values of u32 and i32 against to_string(), 16 threads
    let bad = std::sync::Mutex::new(Vec::<String>::new());
    std::thread::scope(|sc| {
        for t in 0..16u64 {
            let bad = &bad;
            sc.spawn(move || {
                let lo = t << 28;
                let hi = (t + 1) << 28;
                let mut buf = String::new();
                for x in lo..hi {
                    let u = x as u32;
                    let i = u as i32;
                    use std::fmt::Write;
                    buf.clear();
                    write!(buf, "{u}").unwrap();
                    if u.to_lean_string().as_str() != buf {
                        bad.lock().unwrap().push(format!("u32 {u}: {:?}", u.to_lean_string().as_str()));
                        return;
                    }
                    buf.clear();
                    write!(buf, "{i}").unwrap();
                    if i.to_lean_string().as_str() != buf {
                        bad.lock().unwrap().push(format!("i32 {i}: {:?}", i.to_lean_string().as_str()));
                        return;
                    }
                }
            });
        }
    });
    for b in bad.into_inner().unwrap() {
        sink.fail(&["C14"], format!("to_lean_string differs from to_string: {b}"));
    }
    sink.oracle.evaluations += 2 * (1u64 << 32);
    sink.oracle.distinct_nontrivial += 2 * (1u64 << 32);
    sink.oracle.exhaustive = true;
    sink.oracle.samples.push("every u32 and every i32 value against to_string()".into());
}

// ------------------------------------------------------------------------------------------ C15
fn display(rng: &mut Rng, n: usize, sink: &mut Sink) {
    for i in 0..n {
        if i % 5 == 0 {
            sink.line("reset");
        }
        let d = i % 5;
        match i % 7 {
            0 => sink.line(&format!("from_bool {d} {}", i / 7 % 2)),
            1 => sink.line(&format!("from_char {d} {}", h(gn::rand_char(rng)))),
            2 => sink.line(&format!("from_string {d} {}", h(&gn::rand_text(rng)))),
            4 | 6 => sink.line(&format!("display {d} {}", gn::items_pieces_sized(rng, i % 7 == 6))),
            _ => sink.line(&format!("display {d} {}", gn::items_strs(rng, i % 7 == 3, true))),
        }
        if rng.chance(10) {
            sink.line("fault 0");
        }
    }
}

fn chars(sink: &mut Sink) {
    // one value of every type the `to_lean_string` dispatch names, and of their look-alikes
    let mut n = crate::traitsuite::to_lean_string_types(sink);
    // every char against to_string()
    for u in 0..=0x10FFFFu32 {
        if let Some(c) = char::from_u32(u) {
            n += 1;
            let s = c.to_lean_string();
            let mut b = [0u8; 4];
            if s.as_bytes() != c.encode_utf8(&mut b).as_bytes() || s.is_heap_allocated() {
                sink.fail(&["C15", "C09"], format!("char U+{u:04X}: to_lean_string gives {}", hex(s.as_bytes())));
                break;
            }
        }
    }
    // the same characters reaching the sink through `Formatter::write_char`, through a reference and through a box
    // (none of these is the `char` fast path of `to_lean_string`)
    struct ViaWriteChar(char);
    impl std::fmt::Display for ViaWriteChar {
        fn fmt(&self, f: &mut std::fmt::Formatter<'_>) -> std::fmt::Result {
            std::fmt::Write::write_char(f, self.0)
        }
    }
    for u in (0..=0x2FFFu32).chain([0xD7FF, 0xE000, 0xFEFF, 0xFFFD, 0xFFFF, 0x10000, 0x1F4BF, 0x10FFFF]) {
        if let Some(c) = char::from_u32(u) {
            n += 3;
            let want = c.to_string();
            let boxed: Box<char> = Box::new(c);
            for (how, got) in [("write_char", ViaWriteChar(c).to_lean_string()), ("&char", (&c).to_lean_string()), ("Box<char>", boxed.to_lean_string())] {
                if got.as_str() != want {
                    sink.fail(&["C15"], format!("char U+{u:04X} written through {how}: to_lean_string gives {}, to_string gives {}", hex(got.as_bytes()), hex(want.as_bytes())));
                }
            }
        }
        if sink.ex.failures.len() > 5 {
            break;
        }
    }
    for b in [true, false] {
        n += 1;
        if b.to_lean_string().as_str() != b.to_string() {
            sink.fail(&["C15"], format!("bool {b}"));
        }
    }
    sink.oracle.evaluations += n;
    sink.oracle.distinct_nontrivial += n;
    sink.oracle.exhaustive = true;
    sink.oracle.samples.push("every Unicode scalar value and both bools against to_string()".into());
}

fn float_patterns_f64(rng: &mut Rng, n: usize) -> Vec<u64> {
    let mut v = vec![0u64, 1 << 63, f64::INFINITY.to_bits(), f64::NEG_INFINITY.to_bits(), f64::NAN.to_bits(), 1, f64::MAX.to_bits(), f64::MIN_POSITIVE.to_bits(), f64::EPSILON.to_bits()];
    for e in 0..2048u64 {
        for m in [0u64, 1, 2, (1 << 52) - 1, (1 << 52) - 2, 1 << 51, 0x5555555555555 & ((1 << 52) - 1)] {
            v.push(e << 52 | m);
            v.push(1 << 63 | e << 52 | m);
        }
    }
    for _ in 0..n {
        v.push(rng.next());
    }
    for i in 0..1000 {
        v.push((i as f64 / 10.0).to_bits());
        v.push((10f64.powi(i % 600 - 300)).to_bits());
    }
    v
}

fn floats(rng: &mut Rng, n: usize, sink: &mut Sink) {
    let mut evals = 0u64;
    for bits in float_patterns_f64(rng, n / 2) {
        evals += 1;
        if let Err(e) = crate::nums::float_roundtrip_f64(bits) {
            sink.fail(&["C15"], e);
            break;
        }
    }
    let mut v32 = vec![0u32, 1 << 31, f32::INFINITY.to_bits(), f32::NEG_INFINITY.to_bits(), f32::NAN.to_bits(), 1, f32::MAX.to_bits()];
    for e in 0..256u32 {
        for m in [0u32, 1, 2, (1 << 23) - 1, 1 << 22, 0x2AAAAA] {
            v32.push(e << 23 | m);
            v32.push(1 << 31 | e << 23 | m);
        }
    }
    for _ in 0..n / 2 {
        v32.push(rng.next() as u32);
    }
    for bits in v32 {
        evals += 1;
        if let Err(e) = crate::nums::float_roundtrip_f32(bits) {
            sink.fail(&["C15"], e);
            break;
        }
    }
    sink.oracle.evaluations += evals;
    sink.oracle.distinct_nontrivial += evals;
    sink.oracle.samples.push("f64: all exponents x mantissa edges, both signs, NaN/inf/zeros, powers of ten, random bit patterns; text.parse() bit-identical".into());
}

fn floats_f32_all(sink: &mut Sink) {
    let bad = std::sync::Mutex::new(Vec::<String>::new());
    std::thread::scope(|sc| {
        for t in 0..16u64 {
            let bad = &bad;
            sc.spawn(move || {
                for x in (t << 28)..((t + 1) << 28) {
                    if let Err(e) = crate::nums::float_roundtrip_f32(x as u32) {
                        bad.lock().unwrap().push(e);
                        return;
                    }
                }
            });
        }
    });
    for b in bad.into_inner().unwrap() {
        sink.fail(&["C15"], b);
    }
    sink.oracle.evaluations += 1u64 << 32;
    sink.oracle.distinct_nontrivial += 1u64 << 32;
    sink.oracle.exhaustive = true;
    sink.oracle.samples.push("all 2^32 f32 bit patterns round-trip through to_lean_string().parse()".into());
}

// ------------------------------------------------------------------------------------------ C16
const BYTE_ALPHABET: [u8; 17] = [0x41, 0x7F, 0x80, 0x8F, 0x90, 0x9F, 0xA0, 0xBF, 0xC0, 0xC2, 0xDF, 0xE0, 0xE1, 0xED, 0xF0, 0xF4, 0xFF];
const U16_ALPHABET: [u16; 11] = [0x61, 0x7F, 0x80, 0x0800, 0x07FF, 0xFFFF, 0xD800, 0xDBFF, 0xDC00, 0xDFFF, 0xE000];

fn decode(rng: &mut Rng, n: usize, sink: &mut Sink, scripted: bool) {
    // all byte strings up to length n over the class alphabet (n <= 4 scripted; more: oracle only)
    let maxlen = n.min(7);
    let mut cnt = 0u64;
    let mut d = 0usize;
    let mut idx = vec![0usize; 0];
    loop {
        let bytes: Vec<u8> = idx.iter().map(|&i| BYTE_ALPHABET[i]).collect();
        cnt += 1;
        if scripted {
            if d % 6 == 0 {
                sink.line("reset");
            }
            sink.line(&format!("from_utf8 {} {}", d % 6, hex(&bytes)));
            sink.line(&format!("from_utf8_lossy {} {}", (d + 1) % 6, hex(&bytes)));
            if std::str::from_utf8(&bytes).is_ok() {
                sink.line(&format!("from_unchecked {} {}", (d + 2) % 6, hex(&bytes)));
            }
            d += 3;
        } else {
            let a = LeanString::from_utf8(&bytes).ok().map(|s| s.as_bytes().to_vec());
            let b = String::from_utf8(bytes.clone()).ok().map(|s| s.into_bytes());
            let la = LeanString::from_utf8_lossy(&bytes);
            let lb = String::from_utf8_lossy(&bytes);
            if a != b || la.as_bytes() != lb.as_bytes() {
                sink.fail(&["C16"], format!("utf8 input {}: from_utf8/lossy differ from String's", hex(&bytes)));
                break;
            }
        }
        // next
        let mut k = idx.len();
        loop {
            if k == 0 {
                idx = vec![0; idx.len() + 1];
                break;
            }
            k -= 1;
            if idx[k] + 1 < BYTE_ALPHABET.len() {
                idx[k] += 1;
                for j in k + 1..idx.len() {
                    idx[j] = 0;
                }
                break;
            }
        }
        if idx.len() > maxlen {
            break;
        }
    }
    // inputs whose length sits at the inline limit (and at 8 / 32 bytes), ending in every kind of character and in every
    // kind of broken tail: the exact-fit case stores a text byte where the length tag normally lives
    if scripted {
        let tails: [&[u8]; 14] = [b"z", "\u{7f}".as_bytes(), "\u{80}".as_bytes(), "é".as_bytes(), "\u{7ff}".as_bytes(), "€".as_bytes(), "\u{ffff}".as_bytes(),
            "𝄞".as_bytes(), "\u{10ffff}".as_bytes(), &[0xC3], &[0xE2, 0x82], &[0xF0, 0x9D, 0x84], &[0x80], &[0xFF]];
        for total in [7usize, 8, 9, 15, 16, 17, 18, 31, 32, 33] {
            for tail in tails {
                if tail.len() > total {
                    continue;
                }
                for multibyte_prefix in [false, true] {
                    let mut bytes: Vec<u8> = if multibyte_prefix {
                        "é€𝄞é€𝄞é€𝄞é€𝄞".bytes().take(total - tail.len()).collect()
                    } else {
                        (0..total - tail.len()).map(|i| b'a' + (i % 26) as u8).collect()
                    };
                    bytes.extend_from_slice(tail);
                    cnt += 1;
                    sink.line("reset");
                    sink.line(&format!("from_utf8 0 {}", hex(&bytes)));
                    sink.line(&format!("from_utf8_lossy 1 {}", hex(&bytes)));
                    if std::str::from_utf8(&bytes).is_ok() {
                        sink.line(&format!("from_unchecked 2 {}", hex(&bytes)));
                        sink.line("push 2 7a");
                    }
                }
            }
        }
    }
    // u16 strings
    let max16 = if scripted { n.min(4) } else { n.min(6) };
    let mut idx = vec![0usize; 0];
    loop {
        let units: Vec<u16> = idx.iter().map(|&i| U16_ALPHABET[i]).collect();
        cnt += 1;
        if scripted {
            let hx: String = if units.is_empty() { "-".into() } else { units.iter().map(|u| format!("{u:04x}")).collect() };
            if d % 6 == 0 {
                sink.line("reset");
            }
            sink.line(&format!("from_utf16 {} {hx}", d % 6));
            sink.line(&format!("from_utf16_lossy {} {hx}", (d + 1) % 6));
            d += 2;
        } else {
            let a = LeanString::from_utf16(&units).ok().map(|s| s.as_bytes().to_vec());
            let b = String::from_utf16(&units).ok().map(|s| s.into_bytes());
            let la = LeanString::from_utf16_lossy(&units);
            let lb = String::from_utf16_lossy(&units);
            if a != b || la.as_bytes() != lb.as_bytes() {
                sink.fail(&["C16"], format!("utf16 input {units:04x?}: from_utf16/lossy differ from String's"));
                break;
            }
        }
        let mut k = idx.len();
        loop {
            if k == 0 {
                idx = vec![0; idx.len() + 1];
                break;
            }
            k -= 1;
            if idx[k] + 1 < U16_ALPHABET.len() {
                idx[k] += 1;
                for j in k + 1..idx.len() {
                    idx[j] = 0;
                }
                break;
            }
        }
        if idx.len() > max16 {
            break;
        }
    }
    // long near-valid inputs crossing the inline limit
    for _ in 0..(if scripted { 400 } else { 20000 }) {
        let mut b = tl(rng, 10, 30).into_bytes();
        for _ in 0..rng.below(4) {
            let at = rng.below(b.len());
            match rng.below(3) {
                0 => b[at] = *rng.pick(&BYTE_ALPHABET),
                1 => {
                    b.remove(at);
                }
                _ => b.insert(at, *rng.pick(&BYTE_ALPHABET)),
            }
        }
        cnt += 1;
        if scripted {
            sink.line("reset");
            d = 0;
            sink.line(&format!("from_utf8 {} {}", d % 6, hex(&b)));
            sink.line(&format!("from_utf8_lossy {} {}", (d + 1) % 6, hex(&b)));
            let units: Vec<u16> = String::from_utf8_lossy(&b).encode_utf16().map(|u| if rng.chance(5) { *rng.pick(&U16_ALPHABET) } else { u }).collect();
            let hx: String = if units.is_empty() { "-".into() } else { units.iter().map(|u| format!("{u:04x}")).collect() };
            sink.line(&format!("from_utf16 {} {hx}", (d + 2) % 6));
            sink.line(&format!("from_utf16_lossy {} {hx}", (d + 3) % 6));
            d += 4;
        } else {
            let la = LeanString::from_utf8_lossy(&b);
            let lb = String::from_utf8_lossy(&b);
            if la.as_bytes() != lb.as_bytes() || LeanString::from_utf8(&b).is_ok() != String::from_utf8(b.clone()).is_ok() {
                sink.fail(&["C16"], format!("utf8 input {}: differs from String's", hex(&b)));
            }
        }
    }
    // long inputs: a multi-unit character at every offset up to 300 (block / chunk boundaries)
    for pos in 0..300usize {
        let mut units: Vec<u16> = vec![0x61; pos];
        units.extend_from_slice(&[0xD83D, 0xDE00, 0x62, 0x63]);
        let mut bytes: Vec<u8> = vec![0x61; pos];
        bytes.extend_from_slice("😀é€".as_bytes());
        if pos % 3 == 0 {
            bytes.push(0xF0); // truncated lead at the very end
            units.push(0xD800);
        }
        cnt += 2;
        if scripted {
            let hx: String = units.iter().map(|u| format!("{u:04x}")).collect();
            sink.line("reset");
            sink.line(&format!("from_utf16 0 {hx}"));
            sink.line(&format!("from_utf16_lossy 1 {hx}"));
            sink.line(&format!("from_utf8 2 {}", hex(&bytes)));
            sink.line(&format!("from_utf8_lossy 3 {}", hex(&bytes)));
        } else {
            let a = LeanString::from_utf16(&units).ok().map(|s| s.as_bytes().to_vec());
            let b = String::from_utf16(&units).ok().map(|s| s.into_bytes());
            if a != b || LeanString::from_utf16_lossy(&units).as_bytes() != String::from_utf16_lossy(&units).as_bytes()
                || LeanString::from_utf8_lossy(&bytes).as_bytes() != String::from_utf8_lossy(&bytes).as_bytes()
            {
                sink.fail(&["C16"], format!("long input with a multi-unit character at offset {pos}: differs from String's"));
            }
        }
    }
    if !scripted {
        sink.oracle.evaluations += cnt;
        sink.oracle.distinct_nontrivial += cnt;
        sink.oracle.exhaustive = true;
        sink.oracle.samples.push(format!("all byte strings of length <= {maxlen} over the 17-letter UTF-8 class alphabet and all u16 strings of length <= {max16} over the 8-letter surrogate alphabet, against String"));
    }
}
