//! Directed families and pure oracle sweeps (filled in per property).
use crate::Sink;
use crate::gn::Rng;

pub fn run_directed(_name: &str, _rng: &mut Rng, _n: usize, _sink: &mut Sink) -> bool {
    false
}
