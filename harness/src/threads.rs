//! C04 runtime monitor: real threads on handles that share one buffer, under the shadow heap.
//! Each thread's observations are compared with a `String` driven through the same calls; the
//! shadow heap reports double frees, writes after release, damaged guards and leaks.
use crate::Sink;
use crate::gn::{self, Rng};
use lean_string::LeanString;
use std::sync::{Arc, Barrier};

fn apply(ls: &mut LeanString, or: &mut String, op: u64, arg: u64) {
    match op % 12 {
        0 => { ls.push('x'); or.push('x'); }
        1 => { ls.push_str("é€"); or.push_str("é€"); }
        2 => { let a = ls.pop(); let b = or.pop(); assert_eq!(a, b); }
        3 => if !or.is_empty() { let a = ls.remove(0); let b = or.remove(0); assert_eq!(a, b); },
        4 => { ls.insert(0, 'q'); or.insert(0, 'q'); }
        5 => { let n = (arg as usize) % (or.len() + 1); if or.is_char_boundary(n) { ls.truncate(n); or.truncate(n); } }
        6 => { ls.retain(|c| c != 'x'); or.retain(|c| c != 'x'); }
        7 => { ls.clear(); or.clear(); }
        8 => { ls.reserve((arg % 64) as usize); }
        9 => { ls.shrink_to((arg % 64) as usize); }
        10 => { let c = ls.clone(); assert_eq!(c.as_str(), or.as_str()); *ls = c; }
        _ => { assert_eq!(ls.as_str(), or.as_str()); }
    }
}

/// Two persistent workers released together by a barrier: each receives one of the last two
/// handles on a heap buffer and releases it at the same moment (drop / copy-on-write mutation /
/// clone_from), tens of thousands of times. After every round nothing may remain allocated.
fn release_races(rng: &mut Rng, rounds: usize, sink: &mut Sink) -> u64 {
    use std::sync::Mutex;
    let start = Arc::new(Barrier::new(3));
    let done = Arc::new(Barrier::new(3));
    let slots: Vec<Arc<Mutex<Option<(LeanString, u8)>>>> = (0..2).map(|_| Arc::new(Mutex::new(None))).collect();
    let stop = Arc::new(std::sync::atomic::AtomicBool::new(false));
    let bad = Arc::new(Mutex::new(Vec::<String>::new()));
    let mut workers = vec![];
    for w in 0..2 {
        let (start, done, slot, stop, bad) = (start.clone(), done.clone(), slots[w].clone(), stop.clone(), bad.clone());
        workers.push(std::thread::spawn(move || {
            loop {
                start.wait();
                if stop.load(std::sync::atomic::Ordering::SeqCst) {
                    break;
                }
                let item = slot.lock().unwrap().take();
                let bad2 = bad.clone();
                let r = std::panic::catch_unwind(std::panic::AssertUnwindSafe(move || {
                let bad = bad2;
                if let Some((mut s, op)) = item {
                    let want = s.as_str().to_string();
                    match op {
                        0 => drop(s),
                        1 => {
                            s.push('x');
                            if s.as_str().len() != want.len() + 1 || !s.as_str().starts_with(&want) {
                                bad.lock().unwrap().push(format!("push on a racing clone read {:?}", s.as_str()));
                            }
                        }
                        2 => {
                            let c = s.remove(0);
                            if want.chars().next() != Some(c) {
                                bad.lock().unwrap().push("remove on a racing clone returned a wrong char".into());
                            }
                        }
                        3 => {
                            s.shrink_to_fit();
                            if s.as_str() != want {
                                bad.lock().unwrap().push("shrink_to_fit on a racing clone changed the text".into());
                            }
                        }
                        _ => {
                            let other = LeanString::from("a different heap string, long enough");
                            s.clone_from(&other);
                        }
                    }
                }
                }));
                if let Err(e) = r {
                    let msg = e.downcast_ref::<String>().cloned().or_else(|| e.downcast_ref::<&str>().map(|s| s.to_string())).unwrap_or_default();
                    bad.lock().unwrap_or_else(|p| p.into_inner()).push(format!("an operation on a racing clone panicked: {msg}"));
                }
                done.wait();
            }
        }));
    }
    let mut evals = 0u64;
    for round in 0..rounds {
        let text = gn::text_of_len(rng, 40 + round % 7);
        let a = LeanString::from(text.as_str());
        let b = a.clone();
        let (oa, ob) = ((rng.next() % 5) as u8, if round % 2 == 0 { 0 } else { (rng.next() % 5) as u8 });
        *slots[0].lock().unwrap() = Some((a, oa));
        *slots[1].lock().unwrap() = Some((b, ob));
        start.wait();
        done.wait();
        evals += 1;
        let (live, errs) = crate::shadow::with(|s| {
            let l = s.live_blocks();
            s.reset();
            (l, std::mem::take(&mut s.errors))
        });
        if live != 0 {
            sink.fail(&["C04", "C03"], format!("release race, round {round} (ops {oa}/{ob} on the last two handles of one buffer): {live} block(s) never released"));
        }
        for e in errs {
            sink.fail(&["C04", "C03"], format!("release race, round {round}: shadow heap: {e}"));
        }
        if sink.ex.failures.len() > 5 {
            break;
        }
    }
    stop.store(true, std::sync::atomic::Ordering::SeqCst);
    start.wait();
    for w in workers {
        let _ = w.join();
    }
    for b in bad.lock().unwrap_or_else(|p| p.into_inner()).iter().take(5) {
        sink.fail(&["C04"], b.clone());
    }
    evals
}

/// Two persistent workers released together by a barrier: both clone the *same* `&LeanString`, whose
/// buffer has exactly one handle at that moment, so the two increments of the count race. After
/// every round the count must be 3 (the original and the two clones), and after dropping all three
/// nothing may remain allocated.
fn borrowed_clone_races(rng: &mut Rng, rounds: usize, sink: &mut Sink) -> u64 {
    use std::sync::Mutex;
    let start = Arc::new(Barrier::new(3));
    let done = Arc::new(Barrier::new(3));
    let inputs: Vec<Arc<Mutex<Option<Arc<LeanString>>>>> = (0..2).map(|_| Arc::new(Mutex::new(None))).collect();
    let outputs: Vec<Arc<Mutex<Option<LeanString>>>> = (0..2).map(|_| Arc::new(Mutex::new(None))).collect();
    let stop = Arc::new(std::sync::atomic::AtomicBool::new(false));
    let go = Arc::new(std::sync::atomic::AtomicUsize::new(0));
    let mut workers = vec![];
    for w in 0..2 {
        let (start, done, inp, outp, stop, go) = (start.clone(), done.clone(), inputs[w].clone(), outputs[w].clone(), stop.clone(), go.clone());
        workers.push(std::thread::spawn(move || {
            loop {
                start.wait();
                if stop.load(std::sync::atomic::Ordering::SeqCst) {
                    break;
                }
                let item = inp.lock().unwrap().take();
                if let Some(shared) = item {
                    // a spin gate narrows the window between the two clones
                    go.fetch_add(1, std::sync::atomic::Ordering::SeqCst);
                    while go.load(std::sync::atomic::Ordering::SeqCst) < 2 {
                        std::hint::spin_loop();
                    }
                    let r = std::panic::catch_unwind(std::panic::AssertUnwindSafe(|| (*shared).clone()));
                    if let Ok(c) = r {
                        *outp.lock().unwrap() = Some(c);
                    }
                }
                done.wait();
            }
        }));
    }
    let mut evals = 0u64;
    for round in 0..rounds {
        let text = gn::text_of_len(rng, 40 + round % 7);
        let shared = Arc::new(LeanString::from(text.as_str()));
        go.store(0, std::sync::atomic::Ordering::SeqCst);
        *inputs[0].lock().unwrap() = Some(shared.clone());
        *inputs[1].lock().unwrap() = Some(shared.clone());
        start.wait();
        done.wait();
        evals += 1;
        let c0 = outputs[0].lock().unwrap().take();
        let c1 = outputs[1].lock().unwrap().take();
        let rc = lean_string::verif_hooks::ref_count(&shared);
        if rc != Some(3) {
            sink.fail(&["C04", "C03"], format!("borrowed-clone race, round {round}: two threads cloned one &LeanString (count 1) at the same time; three handles exist but the count is {rc:?}"));
        }
        let mut c0 = c0;
        if let Some(c) = c0.as_mut() {
            // copy-on-write through one clone must leave the others reading the original text
            let _ = c.remove(0);
        }
        if shared.as_str() != text || c1.as_ref().map(|c| c.as_str() == text) != Some(true) {
            sink.fail(&["C04", "C02"], format!("borrowed-clone race, round {round}: editing one clone changed what another handle reads"));
        }
        drop(c0);
        drop(c1);
        drop(shared);
        let (live, errs) = crate::shadow::with(|s| {
            let l = s.live_blocks();
            s.reset();
            (l, std::mem::take(&mut s.errors))
        });
        if live != 0 {
            sink.fail(&["C04", "C03"], format!("borrowed-clone race, round {round}: {live} block(s) never released"));
        }
        for e in errs {
            sink.fail(&["C04", "C03"], format!("borrowed-clone race, round {round}: shadow heap: {e}"));
        }
        if sink.ex.failures.len() > 5 {
            break;
        }
    }
    stop.store(true, std::sync::atomic::Ordering::SeqCst);
    start.wait();
    for w in workers {
        let _ = w.join();
    }
    evals
}

pub fn run(rng: &mut Rng, n: usize, sink: &mut Sink) {
    let mut evals = release_races(rng, n * 150, sink);
    evals += borrowed_clone_races(rng, n * 50, sink);
    for it in 0..n {
        let tlen = 17 + rng.below(80);
        let text = gn::text_of_len(rng, tlen);
        let base = LeanString::from(text.as_str());
        let nthreads = 2 + it % 2;
        let barrier = Arc::new(Barrier::new(nthreads));
        let shared_ref = Arc::new(base.clone());
        let mut handles = vec![];
        for t in 0..nthreads {
            let mut mine = base.clone();
            let mut or = text.clone();
            let b = barrier.clone();
            let sref = shared_ref.clone();
            let seed = rng.next();
            let want = text.clone();
            handles.push(std::thread::spawn(move || {
                let mut r = Rng(seed);
                b.wait();
                for _ in 0..(2 + t) {
                    let (op, arg) = (r.next(), r.next());
                    apply(&mut mine, &mut or, op, arg);
                    // a LeanString shared by reference between threads: read and clone it
                    let c = (*sref).clone();
                    assert_eq!(c.as_str(), want);
                    assert_eq!(sref.as_str(), want);
                }
                assert_eq!(mine.as_str(), or.as_str());
                drop(mine);
            }));
        }
        drop(base);
        for hnd in handles {
            evals += 1;
            if hnd.join().is_err() {
                sink.fail(&["C04"], format!("a thread observed a value different from its own sequential result (iteration {it}, text {text:?})"));
            }
        }
        drop(shared_ref);
        let (live, errs) = crate::shadow::with(|s| {
            let l = s.live_blocks();
            s.reset();
            (l, std::mem::take(&mut s.errors))
        });
        if live != 0 {
            sink.fail(&["C04", "C03"], format!("{live} block(s) still allocated after all threads finished (iteration {it})"));
        }
        for e in errs {
            sink.fail(&["C04", "C03"], format!("shadow heap (iteration {it}): {e}"));
        }
        if sink.ex.failures.len() > 5 {
            break;
        }
    }
    sink.oracle.evaluations += evals;
    sink.oracle.distinct_nontrivial += evals;
    sink.oracle.samples.push("two persistent workers released by a barrier, each holding one of the last two handles on a buffer and releasing it simultaneously (drop, push, remove, shrink_to_fit, clone_from); shadow heap audited after every round".into());
    sink.oracle.samples.push("two persistent workers cloning the same &LeanString (one handle, count 1) at the same moment through a spin gate; the count must be 3 afterwards, copy-on-write through one clone must not disturb the others, shadow heap audited after every round".into());
    sink.oracle.samples.push("2-3 OS threads released by a barrier, each owning a clone of one heap buffer and borrowing an Arc<LeanString>, running 2-4 random operations (push, push_str, pop, remove, insert, truncate, retain, clear, reserve, shrink_to, clone, read); each thread checked against its own String; shadow heap audited after every iteration".into());
}
