//! Script generators. Every random choice derives from one SplitMix64 state (VERIF_SEED).

use crate::exec::{Exec, hex};

pub struct Rng(pub u64);
impl Rng {
    pub fn next(&mut self) -> u64 {
        self.0 = self.0.wrapping_add(0x9E3779B97F4A7C15);
        let mut z = self.0;
        z = (z ^ (z >> 30)).wrapping_mul(0xBF58476D1CE4E5B9);
        z = (z ^ (z >> 27)).wrapping_mul(0x94D049BB133111EB);
        z ^ (z >> 31)
    }
    pub fn below(&mut self, n: usize) -> usize {
        if n == 0 { 0 } else { (self.next() % n as u64) as usize }
    }
    pub fn pick<'a, T>(&mut self, xs: &'a [T]) -> &'a T {
        &xs[self.below(xs.len())]
    }
    pub fn chance(&mut self, pct: usize) -> bool {
        self.below(100) < pct
    }
}

pub const CHARS: [&str; 12] = ["a", "b", "z", "0", "Z", " ", "é", "ß", "€", "あ", "𝄞", "😀"];
const LENS: [usize; 17] = [0, 1, 2, 3, 4, 7, 8, 14, 15, 16, 17, 18, 24, 31, 32, 33, 100];

/// characters whose encoding ends in (or consists of) an edge of a UTF-8 byte class — 0x7F, C2 80, C2 BF, C3 BF, DF BF,
/// E0 A0 80, ED 9F BF, EE 80 80, EF BF BD/BE/BF, F0 90 80 80, F4 8F BF BF — or that text shortcuts single out (NUL, BOM)
pub const EDGE_CHARS: [&str; 16] = ["\u{0}", "\u{7F}", "\u{80}", "\u{BF}", "\u{FF}", "\u{7FF}", "\u{800}", "\u{D7FF}", "\u{E000}",
    "\u{FEFF}", "\u{FFFD}", "\u{FFFE}", "\u{FFFF}", "\u{10000}", "\u{1F4BF}", "\u{10FFFF}"];

pub fn rand_char(rng: &mut Rng) -> &'static str {
    // bias toward ASCII so that lengths are controllable, but every width appears; now and then an edge of a byte class
    if rng.chance(6) {
        return EDGE_CHARS[rng.below(EDGE_CHARS.len())];
    }
    if rng.chance(55) { CHARS[rng.below(6)] } else { CHARS[6 + rng.below(6)] }
}

/// A text of (about) `target` bytes, never more.
pub fn text_of_len(rng: &mut Rng, target: usize) -> String {
    let mut s = String::new();
    while s.len() < target {
        let c = rand_char(rng);
        if s.len() + c.len() <= target {
            s.push_str(c);
        } else {
            s.push('x');
        }
    }
    s
}

pub fn rand_text(rng: &mut Rng) -> String {
    let l = if rng.chance(4) { 200 + rng.below(1200) } else { *rng.pick(&LENS) };
    text_of_len(rng, l)
}

pub fn short_text(rng: &mut Rng) -> String {
    let l = *rng.pick(&[0usize, 1, 1, 2, 3, 4, 5, 8, 12, 17]);
    text_of_len(rng, l)
}

pub fn sizes(rng: &mut Rng, len: usize, cap: usize) -> usize {
    let u = usize::MAX;
    let m56 = (1usize << 56) - 1;
    let k = rng.below(64);
    let (r64, r3000) = (rng.below(64), rng.below(3000));
    let cands = [
        0,
        1,
        2,
        15,
        16,
        17,
        len.wrapping_sub(1),
        len,
        len + 1,
        cap.wrapping_sub(1),
        cap,
        cap + 1,
        cap.saturating_sub(len),
        cap.saturating_sub(len) + 1,
        (1usize << k).wrapping_sub(2),
        (1usize << k).wrapping_add(1),
        m56 - 2,
        m56,
        m56 + 2,
        m56.wrapping_sub(len),
        m56.wrapping_sub(len) + 1,
        (1usize << 63) - 2,
        (1usize << 63) + 2,
        u - len - 2,
        u - len,
        (u - len).wrapping_add(1),
        u - 1,
        u,
        r64,
        r3000,
    ];
    // small values far more often than gigantic ones
    let r200 = rng.below(200);
    if rng.chance(60) { *rng.pick(&[0usize, 1, 2, 5, 15, 16, 17, 20, 33, 40, 64, len, len + 1, cap, cap + 1, cap.saturating_sub(len), r200]) } else { *rng.pick(&cands) }
}

pub fn index(rng: &mut Rng, text: &[u8]) -> usize {
    let len = text.len();
    match rng.below(10) {
        0 => 0,
        1 => 1.min(len + 2),
        2 => len / 2,
        3 => len.saturating_sub(1),
        4 => len,
        5 => len + 1,
        6 => len + 2,
        _ => {
            // a random position, mostly on a boundary
            let mut i = rng.below(len + 1);
            if rng.chance(75) {
                while i < len && (text[i] & 0xC0) == 0x80 {
                    i += 1;
                }
            }
            i
        }
    }
}

pub fn items_chars(rng: &mut Rng, allow_panic: bool) -> String {
    let n = *rng.pick(&[0usize, 1, 2, 3, 5, 6, 9, 15, 16, 17, 20]);
    // sometimes only multi-byte characters: few items, many bytes
    let wide = rng.chance(35);
    let mut v: Vec<String> = (0..n).map(|_| hex(if wide { CHARS[6 + rng.below(6)] } else { rand_char(rng) }.as_bytes())).collect();
    if allow_panic && rng.chance(20) {
        let at = rng.below(v.len() + 1);
        v.insert(at, "P".into());
    }
    if v.is_empty() { "-".into() } else { v.join(",") }
}

pub fn items_strs(rng: &mut Rng, allow_panic: bool, fail: bool) -> String {
    let n = *rng.pick(&[0usize, 1, 2, 3, 4]);
    let mut v: Vec<String> = (0..n).map(|_| hex(short_text(rng).as_bytes())).filter(|x| x != "-").collect();
    if allow_panic && rng.chance(20) {
        let at = rng.below(v.len() + 1);
        v.insert(at, "P".into());
    } else if fail && rng.chance(20) {
        let at = rng.below(v.len() + 1);
        v.insert(at, "E".into());
    }
    if v.is_empty() { "-".into() } else { v.join(",") }
}

/// pieces of a multi-piece `Display` with lengths around every power of two up to 1 KiB (a writer that batches
/// small pieces and passes large ones through has its threshold somewhere there), in random order
pub fn items_pieces_sized(rng: &mut Rng, fail: bool) -> String {
    const LENS: [usize; 22] = [1, 2, 3, 7, 8, 9, 15, 16, 17, 31, 32, 33, 63, 64, 65, 127, 128, 129, 255, 256, 257, 1000];
    let n = 1 + rng.below(4);
    let mut v: Vec<String> = Vec::new();
    for k in 0..n {
        let len = *rng.pick(&LENS);
        let mut t = String::new();
        let mark = (b'a' + (k as u8 % 26)) as char;
        while t.len() < len {
            if t.len() + 2 <= len && rng.chance(10) { t.push('é'); } else { t.push(mark); }
        }
        v.push(hex(t.as_bytes()));
    }
    if fail && rng.chance(10) {
        let at = rng.below(v.len() + 1);
        v.insert(at, "E".into());
    }
    v.join(",")
}

pub const STATIC_TEXTS: [&str; 7] = [
    "0123456789abcdefg",                                                  // 17
    "static text of 20 by",                                               // 20
    "héllo wörld, ça va très bien €€",                                    // multi-byte
    "𝄞𝄞𝄞𝄞𝄞 musical symbols and some ASCII padding to reach one hundred bytes of static text.....", // ~100
    "short",                                                              // inline
    "exactly16bytes!!",                                                   // 16
    "sixteen+1 bytes é",                                                  // 18, ends in 2-byte char
];

pub fn static_lines() -> Vec<String> {
    STATIC_TEXTS.iter().enumerate().map(|(i, t)| format!("static {i} {}", hex(t.as_bytes()))).collect()
}

pub const POOL: usize = 6;

/// One state-aware random operation line.
pub fn random_op(rng: &mut Rng, ex: &Exec) -> String {
    let live: Vec<usize> = (0..POOL).filter(|&i| ex.live(i)).collect();
    let free: Vec<usize> = (0..POOL).filter(|&i| !ex.live(i)).collect();
    let want_ctor = live.is_empty() || (!free.is_empty() && rng.chance(if live.len() < 2 { 45 } else { 14 }));
    if want_ctor {
        let d = *rng.pick(&free);
        let shared_src = live.iter().copied().filter(|&i| ex.observe(i).map(|o| o.kind != 'I').unwrap_or(false)).collect::<Vec<_>>();
        let r = rng.below(100);
        return if r < 30 && !live.is_empty() {
            let s = if !shared_src.is_empty() && rng.chance(80) { *rng.pick(&shared_src) } else { *rng.pick(&live) };
            format!("{} {d} {s}", rng.pick(&["clone", "clone", "clone", "from_ref", "to_ls"]))
        } else if r < 62 {
            let t = rand_text(rng);
            format!("{} {d} {}", rng.pick(&["from", "from", "try_from", "from_string", "from_box", "from_cow", "from_ref_string", "from_unchecked"]), hex(t.as_bytes()))
        } else if r < 74 {
            format!("from_static {d} {}", rng.below(STATIC_TEXTS.len()))
        } else if r < 84 {
            let n = sizes(rng, 0, 16);
            format!("{} {d} {n}", rng.pick(&["with_capacity", "try_with_capacity"]))
        } else if r < 88 {
            format!("from_char {d} {}", hex(rand_char(rng).as_bytes()))
        } else if r < 92 {
            if rng.chance(40) { format!("collect_chars {d} exact {}", items_chars(rng, false)) } else { format!("collect_chars {d} {} {}", sizes(rng, 0, 16), items_chars(rng, true)) }
        } else if r < 95 {
            format!("collect_strs {d} {}", items_strs(rng, true, false))
        } else if r < 98 {
            format!("display {d} {}", items_strs(rng, true, true))
        } else {
            format!("new {d}")
        };
    }
    let h = *rng.pick(&live);
    let o = ex.observe(h).unwrap();
    // arm a fault before ~6 % of mutators
    if rng.chance(6) {
        return format!("fault {}", rng.below(2));
    }
    let tr = if rng.chance(35) { "try_" } else { "" };
    let r = rng.below(100);
    if r < 12 {
        format!("{tr}push {h} {}", hex(rand_char(rng).as_bytes()))
    } else if r < 24 {
        let t = if rng.chance(70) { short_text(rng) } else { rand_text(rng) };
        format!("{tr}push_str {h} {}", hex(t.as_bytes()))
    } else if r < 31 {
        format!("{tr}pop {h}")
    } else if r < 39 {
        format!("{tr}remove {h} {}", index(rng, &o.text))
    } else if r < 46 {
        format!("{tr}insert {h} {} {}", index(rng, &o.text), hex(rand_char(rng).as_bytes()))
    } else if r < 53 {
        let t = short_text(rng);
        format!("{tr}insert_str {h} {} {}", index(rng, &o.text), hex(t.as_bytes()))
    } else if r < 61 {
        format!("{tr}truncate {h} {}", index(rng, &o.text))
    } else if r < 64 {
        format!("clear {h}")
    } else if r < 69 {
        let n = o.text.len().min(24);
        let mut p: String = (0..n).map(|_| *rng.pick(&['T', 'T', 'F'])).collect();
        if rng.chance(20) && n > 0 {
            let at = rng.below(n);
            p.replace_range(at..at + 1, "P");
        }
        if p.is_empty() {
            p = "-".into();
        }
        format!("{tr}retain {h} {p}")
    } else if r < 77 {
        format!("{tr}reserve {h} {}", sizes(rng, o.len, o.cap))
    } else if r < 83 {
        format!("{tr}shrink_to {h} {}", sizes(rng, o.len, o.cap))
    } else if r < 86 {
        format!("{tr}shrink_to_fit {h}")
    } else if r < 89 {
        if rng.chance(45) { format!("extend_chars {h} exact {}", items_chars(rng, false)) } else { format!("extend_chars {h} {} {}", sizes(rng, o.len, o.cap), items_chars(rng, true)) }
    } else if r < 91 {
        format!("extend_strs {h} {}", items_strs(rng, true, false))
    } else if r < 92 {
        format!("write {h} {}", items_strs(rng, false, false))
    } else if r < 94 {
        let t = short_text(rng);
        // `s += t` and `s = s + t` (the by-value operator consumes the handle and hands it back)
        format!("{} {h} {}", if rng.chance(50) { "add" } else { "add_assign" }, hex(t.as_bytes()))
    } else if r < 97 {
        format!("drop {h}")
    } else {
        let others: Vec<usize> = live.iter().copied().filter(|&x| x != h).collect();
        if others.is_empty() { format!("drop {h}") } else { format!("clone_from {h} {}", rng.pick(&others)) }
    }
}

// ------------------------------------------------------------------------------------------------
// bounded-exhaustive enumeration
// ------------------------------------------------------------------------------------------------

const T15: &str = "0123456789abcde";
const T16: &str = "0123456789abcdef";
const T16C: &str = "0123456789abcdé"; // 16 bytes, last byte is a continuation byte
const T20: &str = "0123456789abcdefXYZé"; // 21 bytes? see below

pub fn prestates() -> Vec<(&'static str, Vec<String>)> {
    let h = |s: &str| hex(s.as_bytes());
    let t20 = "0123456789abcdeéXYZ"; // 20 bytes
    debug_assert_eq!(t20.len(), 20);
    let _ = T20;
    vec![
        ("inline-empty", vec!["new 0".into()]),
        ("inline-15", vec![format!("from 0 {}", h(T15))]),
        ("inline-16-ascii", vec![format!("from 0 {}", h(T16))]),
        ("inline-16-cont", vec![format!("from 0 {}", h(T16C))]),
        ("static-17", vec!["from_static 0 0".into()]),
        ("static-trunc", vec!["from_static 0 2".into(), "truncate 0 6".into()]),
        ("heap-exact", vec![format!("from 0 {}", h(t20))]),
        ("heap-over", vec!["with_capacity 0 40".into(), format!("push_str 0 {}", h(t20))]),
        ("heap-short", vec![format!("from 0 {}", h(t20)), "truncate 0 3".into()]),
        ("shared-2", vec![format!("from 0 {}", h(t20)), "clone 1 0".into()]),
        ("shared-2-target-short", vec![format!("from 0 {}", h(t20)), "clone 1 0".into(), "truncate 0 5".into()]),
        ("shared-2-sibling-short", vec![format!("from 0 {}", h(t20)), "clone 1 0".into(), "truncate 1 5".into()]),
        ("shared-3", vec![format!("from 0 {}", h(t20)), "clone 1 0".into(), "clone 2 0".into()]),
        ("heap-fresh", vec!["with_capacity 0 17".into()]),
    ]
}

/// Alphabet of concrete operation lines; `{D}` is replaced by a fresh destination index.
pub fn alphabet() -> Vec<String> {
    let h = |s: &str| hex(s.as_bytes());
    vec![
        "push 0 61".into(),
        format!("push 0 {}", h("𝄞")),
        format!("try_push_str 0 {}", h("0123456789abcdefg")),
        format!("push_str 0 {}", h("é")),
        "pop 0".into(),
        "remove 0 0".into(),
        "remove 0 15".into(),
        "try_remove 0 16".into(),
        format!("insert 0 0 {}", h("€")),
        "insert 0 3 62".into(),
        format!("insert_str 0 15 {}", h("xy")),
        "insert_str 0 1 -".into(),
        "truncate 0 1".into(),
        "truncate 0 15".into(),
        "truncate 0 16".into(),
        "clear 0".into(),
        "retain 0 TFTFTFTF".into(),
        "retain 0 TTFP".into(),
        "reserve 0 0".into(),
        "reserve 0 30".into(),
        "try_reserve 0 18446744073709551515".into(),
        "shrink_to_fit 0".into(),
        "shrink_to 0 18".into(),
        "clone {D} 0".into(),
        "drop 1".into(),
        "clone_from 0 1".into(),
        "fault 0".into(),
        format!("extend_chars 0 18446744073709551000 {}", h("q")),
        format!("extend_chars 0 exact {}", [h("€"), h("€"), h("𝄞"), h("é"), h("€"), h("€")].join(",")),
    ]
}
