//! Script families: seeded random, bounded-exhaustive enumeration, directed templates.

use crate::Sink;
use crate::exec::hex;
use crate::gn::{self, Rng};

pub fn run(fam: &str, seed: u64, n: usize, depth: usize, sink: &mut Sink) -> Vec<(String, String)> {
    let mut rng = Rng(seed ^ 0x5EED_0000_0000_0000 ^ (fam.len() as u64) << 32);
    sink.lines(&gn::static_lines());
    match fam {
        "random" => random(&mut rng, n, sink),
        "enum" => enumerate(depth, sink),
        other => {
            if !crate::oracles::run_directed(other, &mut rng, n, sink) {
                eprintln!("unknown family {other}");
                std::process::exit(2);
            }
        }
    }
    vec![]
}

fn random(rng: &mut Rng, n: usize, sink: &mut Sink) {
    for _ in 0..n {
        sink.line("reset");
        let len = 8 + rng.below(28);
        for _ in 0..len {
            let l = gn::random_op(rng, &sink.ex);
            sink.line(&l);
        }
    }
}

fn enumerate(depth: usize, sink: &mut Sink) {
    let pres = gn::prestates();
    let alpha = gn::alphabet();
    let k = alpha.len();
    let total: usize = k.pow(depth as u32);
    for (_name, pre) in &pres {
        for code in 0..total {
            sink.line("reset");
            sink.lines(pre);
            let mut c = code;
            for step in 0..depth {
                let a = &alpha[c % k];
                c /= k;
                let l = a.replace("{D}", &format!("{}", 3 + step));
                sink.line(&l);
            }
        }
    }
    let _ = hex(b"");
}
