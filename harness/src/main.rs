mod exec;
mod families;
mod gn;
mod nums;
mod oracles;
mod shadow;
mod threads;
mod traitsuite;

use exec::Exec;
use std::fs::File;
use std::io::{BufRead, BufWriter, Write};

#[derive(Default)]
pub struct OracleStats {
    pub evaluations: u64,
    pub distinct_nontrivial: u64,
    pub samples: Vec<String>,
    pub detail: Vec<(String, u64)>,
    pub exhaustive: bool,
}

pub struct Sink {
    pub ex: Exec,
    script: Option<BufWriter<File>>,
    obs: Option<BufWriter<File>>,
    pub echo: bool,
    pub oracle: OracleStats,
}

impl Sink {
    pub fn new(out: Option<&str>, name: &str) -> Self {
        let mut ex = Exec::new();
        ex.keep_obs = false;
        let (script, obs) = match out {
            Some(d) => {
                std::fs::create_dir_all(d).unwrap();
                (
                    Some(BufWriter::new(File::create(format!("{d}/{name}.script")).unwrap())),
                    Some(BufWriter::new(File::create(format!("{d}/{name}.impl.obs")).unwrap())),
                )
            }
            None => (None, None),
        };
        Sink { ex, script, obs, echo: false, oracle: OracleStats::default() }
    }
    pub fn line(&mut self, l: &str) {
        if let Some(s) = self.script.as_mut() {
            writeln!(s, "{l}").unwrap();
            // on disk before the line runs: if the crate brings the process down, the script file
            // ends with the case that did it
            s.flush().unwrap();
        }
        let o = self.ex.exec_line(l);
        if let Some(o) = o {
            if self.echo {
                println!("{l}\n    {o}");
            }
            if let Some(f) = self.obs.as_mut() {
                writeln!(f, "{o}").unwrap();
            }
        } else if self.echo {
            println!("{l}");
        }
    }
    pub fn lines(&mut self, ls: &[String]) {
        for l in ls {
            self.line(l);
        }
    }
    pub fn fail(&mut self, props: &[&'static str], msg: String) {
        if self.ex.failures.len() < 200 {
            self.ex.failures.push(exec::Failure { props: props.to_vec(), msg, script: vec![] });
        }
    }
    pub fn finish(&mut self) {
        self.line("reset");
        if let Some(s) = self.script.as_mut() {
            s.flush().unwrap();
        }
        if let Some(s) = self.obs.as_mut() {
            s.flush().unwrap();
        }
    }
}

pub fn jstr(s: &str) -> String {
    let mut o = String::from("\"");
    for c in s.chars() {
        match c {
            '"' => o.push_str("\\\""),
            '\\' => o.push_str("\\\\"),
            '\n' => o.push_str("\\n"),
            '\t' => o.push_str("\\t"),
            c if (c as u32) < 0x20 => o.push_str(&format!("\\u{:04x}", c as u32)),
            c => o.push(c),
        }
    }
    o.push('"');
    o
}

fn write_report(path: &str, name: &str, seed: u64, sink: &Sink, extra: &[(String, String)], wall: f64) {
    let ex = &sink.ex;
    let mut f = BufWriter::new(File::create(path).unwrap());
    writeln!(f, "{{").unwrap();
    writeln!(f, " \"family\": {},", jstr(name)).unwrap();
    writeln!(f, " \"seed\": {seed},").unwrap();
    writeln!(f, " \"wall_s\": {wall:.3},").unwrap();
    writeln!(f, " \"ops\": {},", ex.stats.ops).unwrap();
    writeln!(f, " \"cases\": {},", ex.stats.cases).unwrap();
    writeln!(f, " \"distinct_cases\": {},", ex.stats.case_hashes.len()).unwrap();
    writeln!(f, " \"distinct_nontrivial\": {},", ex.stats.nontrivial_hashes.len()).unwrap();
    writeln!(f, " \"allocator_requests\": {},", shadow::with(|s| s.total_reqs + s.reqs)).unwrap();
    let mut oc: Vec<_> = ex.stats.outcomes.iter().collect();
    oc.sort();
    writeln!(f, " \"outcomes\": {{{}}},", oc.iter().map(|(k, v)| format!("{}: {}", jstr(k), v)).collect::<Vec<_>>().join(", ")).unwrap();
    let mut mx: Vec<_> = ex.stats.matrix.iter().collect();
    mx.sort();
    writeln!(f, " \"matrix_cells\": {},", mx.len()).unwrap();
    writeln!(f, " \"matrix\": {{{}}},", mx.iter().map(|(k, v)| format!("{}: {}", jstr(k), v)).collect::<Vec<_>>().join(", ")).unwrap();
    for (k, v) in extra {
        writeln!(f, " {}: {},", jstr(k), v).unwrap();
    }
    let o = &sink.oracle;
    if o.evaluations > 0 {
        writeln!(f, " \"oracle_evaluations\": {},", o.evaluations).unwrap();
        writeln!(f, " \"oracle_distinct_nontrivial\": {},", o.distinct_nontrivial).unwrap();
        writeln!(f, " \"exhaustive\": {},", o.exhaustive).unwrap();
        writeln!(f, " \"oracle_samples\": [{}],", o.samples.iter().map(|x| jstr(x)).collect::<Vec<_>>().join(",")).unwrap();
        writeln!(f, " \"oracle_detail\": {{{}}},", o.detail.iter().map(|(k, v)| format!("{}: {}", jstr(k), v)).collect::<Vec<_>>().join(", ")).unwrap();
    }
    writeln!(f, " \"failures\": [").unwrap();
    for (i, fl) in ex.failures.iter().enumerate() {
        writeln!(
            f,
            "  {{\"props\": [{}], \"msg\": {}, \"script\": [{}]}}{}",
            fl.props.iter().map(|p| jstr(p)).collect::<Vec<_>>().join(","),
            jstr(&fl.msg),
            fl.script.iter().map(|p| jstr(p)).collect::<Vec<_>>().join(","),
            if i + 1 < ex.failures.len() { "," } else { "" }
        )
        .unwrap();
    }
    writeln!(f, " ]\n}}").unwrap();
}

fn arg(args: &[String], key: &str) -> Option<String> {
    args.iter().position(|a| a == key).and_then(|i| args.get(i + 1).cloned())
}

fn main() {
    if std::env::var("LS_LOUD").is_err() { std::panic::set_hook(Box::new(|_| {})); }
    let args: Vec<String> = std::env::args().collect();
    if args.len() < 2 {
        eprintln!("usage: lsharness run <family> [--seed S] [--n N] [--depth D] [--out DIR] | replay <script> | consts");
        std::process::exit(2);
    }
    shadow::install();
    match args[1].as_str() {
        "consts" => {
            let c = lean_string::verif_hooks::constants();
            println!(
                "max_inline={} heap_max_len={} header_size={} header_offset={} static_max_len={} static_tag={} heap_marker={} mask={} size_of={} size_of_option={} align_of={}",
                c[0], c[1], c[2], c[3], c[4], c[5], c[6], c[7],
                size_of::<lean_string::LeanString>(),
                size_of::<Option<lean_string::LeanString>>(),
                align_of::<lean_string::LeanString>()
            );
        }
        "replay" => {
            let path = &args[2];
            let mut sink = Sink::new(arg(&args, "--out").as_deref(), "replay");
            sink.echo = arg(&args, "--out").is_none();
            let f = std::io::BufReader::new(File::open(path).expect("cannot open script"));
            for l in f.lines() {
                let l = l.unwrap();
                sink.line(&l);
            }
            sink.finish();
            for fl in &sink.ex.failures {
                println!("MONITOR {} {}", fl.props.join(","), fl.msg);
            }
            if let Some(d) = arg(&args, "--out") {
                write_report(&format!("{d}/replay.report.json"), "replay", 0, &sink, &[], 0.0);
            }
            std::process::exit(if sink.ex.failures.is_empty() { 0 } else { 1 });
        }
        "run" => {
            let fam = args[2].clone();
            let seed: u64 = arg(&args, "--seed").and_then(|s| s.parse().ok()).unwrap_or(1);
            let n: usize = arg(&args, "--n").and_then(|s| s.parse().ok()).unwrap_or(1000);
            let depth: usize = arg(&args, "--depth").and_then(|s| s.parse().ok()).unwrap_or(2);
            let out = arg(&args, "--out").unwrap_or_else(|| "out".into());
            let t0 = std::time::Instant::now();
            let mut sink = Sink::new(Some(&out), &fam);
            let extra = families::run(&fam, seed, n, depth, &mut sink);
            sink.finish();
            write_report(&format!("{out}/{fam}.report.json"), &fam, seed, &sink, &extra, t0.elapsed().as_secs_f64());
            let nf = sink.ex.failures.len();
            eprintln!("{fam}: ops={} cases={} failures={} wall={:.1}s", sink.ex.stats.ops, sink.ex.stats.cases, nf, t0.elapsed().as_secs_f64());
        }
        _ => {
            eprintln!("unknown command");
            std::process::exit(2);
        }
    }
}
