//! C04: the real crate under loom.
//!
//! Built with `--cfg loom`, the crate's reference count is `loom::sync::atomic::AtomicUsize`, so
//! `loom::model` runs every program below under **every** schedule of its atomic operations and
//! every value the C11 memory model lets each load return (bounded only by the preemption bound
//! given per program). The buffers themselves are plain memory; the `verif-hooks` allocator table
//! and access notes map every block onto a loom-tracked cell:
//!
//! * a read of the text is a shared access of the cell, a write (`as_slice_mut`), a `realloc`
//!   and a `dealloc` are exclusive accesses — loom reports any pair of conflicting accesses that
//!   is not ordered by happens-before (a data race), with the schedule that produced it;
//! * released blocks are quarantined and poisoned, not returned to the allocator: an access note
//!   on a released block, a second release, or a release with another layout is reported at once;
//! * at the end of every execution no block may be live (leak), and every thread has compared
//!   what it read with a `String` driven through the same calls.
//!
//! Usage: `lsloom list` | `lsloom run [<program>…] [--checkpoint-dir <dir>]` | `lsloom replay <program> <checkpoint>`.
//! One line per program: `OK program=<p> executions=<n>` or `FAIL program=<p> executions=<n> msg=<…> checkpoint=<file>`.

use lean_string::LeanString;
use loom::thread;
use std::alloc::Layout;
use std::collections::BTreeMap;
use std::panic::{catch_unwind, AssertUnwindSafe};
use std::sync::atomic::{AtomicUsize, Ordering as StdOrd};
use std::sync::{Arc, Mutex};

const HEADER: usize = 2 * std::mem::size_of::<usize>();

struct Cell(loom::cell::UnsafeCell<()>);
unsafe impl Send for Cell {}
unsafe impl Sync for Cell {}

struct Block {
    start: usize,
    layout: Layout,
    freed: bool,
    cell: Arc<Cell>,
}

#[derive(Default)]
struct Registry {
    blocks: BTreeMap<usize, Block>, // keyed by allocation start
    allocs: usize,
    frees: usize,
}

static REG: Mutex<Option<Registry>> = Mutex::new(None);
static EXECUTIONS: AtomicUsize = AtomicUsize::new(0);

fn reg<R>(f: impl FnOnce(&mut Registry) -> R) -> R {
    let mut g = REG.lock().unwrap_or_else(|e| e.into_inner());
    f(g.get_or_insert_with(Registry::default))
}

/// start of an execution: forget the previous one (its loom objects are dead) and give back its memory
fn begin_execution() {
    EXECUTIONS.fetch_add(1, StdOrd::SeqCst);
    let old = {
        let mut g = REG.lock().unwrap_or_else(|e| e.into_inner());
        g.replace(Registry::default())
    };
    if let Some(old) = old {
        for (_, b) in old.blocks {
            unsafe { std::alloc::dealloc(b.start as *mut u8, b.layout) };
        }
    }
}

/// end of an execution (all threads joined, all handles dropped): nothing may be live
fn end_execution() {
    let live: Vec<usize> = reg(|r| r.blocks.values().filter(|b| !b.freed).map(|b| b.layout.size()).collect());
    if !live.is_empty() {
        panic!("leak: {} block(s) never released (sizes {:?}) although every handle is gone", live.len(), live);
    }
}

unsafe fn h_alloc(layout: Layout) -> *mut u8 {
    let p = unsafe { std::alloc::alloc(layout) };
    if p.is_null() {
        return p;
    }
    unsafe { std::ptr::write_bytes(p, 0xA5, layout.size()) };
    let cell = Arc::new(Cell(loom::cell::UnsafeCell::new(())));
    // initialisation is an exclusive access by the allocating thread
    cell.0.with_mut(|_| ());
    reg(|r| {
        r.allocs += 1;
        r.blocks.insert(p as usize, Block { start: p as usize, layout, freed: false, cell });
    });
    p
}

unsafe fn h_dealloc(ptr: *mut u8, layout: Layout) {
    if std::thread::panicking() {
        return;
    }
    let cell = reg(|r| match r.blocks.get_mut(&(ptr as usize)) {
        None => Err(format!("dealloc of {ptr:p}, which this crate never allocated")),
        Some(b) if b.freed => Err("double free: the buffer is released a second time".to_string()),
        Some(b) if b.layout != layout => Err(format!("dealloc with layout {layout:?}, allocated with {:?}", b.layout)),
        Some(b) => Ok(b.cell.clone()),
    });
    let cell = match cell {
        Ok(c) => c,
        Err(e) => panic!("{e}"),
    };
    // releasing the buffer conflicts with every earlier access that does not happen-before it
    cell.0.with_mut(|_| ());
    reg(|r| {
        r.frees += 1;
        if let Some(b) = r.blocks.get_mut(&(ptr as usize)) {
            b.freed = true;
        }
    });
    // poison the text; the header keeps its (loom) reference count so that a late decrement is
    // observed as what it leads to (a second release) rather than as a crash inside loom
    if layout.size() > HEADER {
        unsafe { std::ptr::write_bytes(ptr.add(HEADER), 0xDD, layout.size() - HEADER) };
    }
}

unsafe fn h_realloc(ptr: *mut u8, layout: Layout, new_size: usize) -> *mut u8 {
    let new_layout = Layout::from_size_align(new_size, layout.align()).unwrap();
    let np = unsafe { h_alloc(new_layout) };
    if np.is_null() {
        return np;
    }
    unsafe { std::ptr::copy_nonoverlapping(ptr, np, layout.size().min(new_size)) };
    unsafe { h_dealloc(ptr, layout) };
    np
}

fn h_note(kind: u8, ptr: *const u8) {
    if std::thread::panicking() {
        return;
    }
    let a = ptr as usize;
    let found = reg(|r| {
        r.blocks.range(..=a).next_back().and_then(|(_, b)| {
            if a >= b.start && a <= b.start + b.layout.size() { Some((b.freed, b.cell.clone())) } else { None }
        })
    });
    match found {
        None => {}
        Some((true, _)) => panic!(
            "use after free: the crate {} a buffer that has already been released",
            if kind == lean_string::verif_hooks::NOTE_WRITE_TEXT { "writes to" } else { "reads" }
        ),
        Some((false, cell)) => {
            if kind == lean_string::verif_hooks::NOTE_WRITE_TEXT {
                cell.0.with_mut(|_| ());
            } else {
                cell.0.with(|_| ());
            }
        }
    }
}

static ALLOC_TABLE: lean_string::verif_hooks::AllocTable =
    lean_string::verif_hooks::AllocTable { alloc: h_alloc, dealloc: h_dealloc, realloc: h_realloc };
static ACCESS_TABLE: lean_string::verif_hooks::AccessTable = lean_string::verif_hooks::AccessTable { note: h_note };

// ---------------------------------------------------------------------------------------------
// programs

const T26: &str = "abcdefghijklmnopqrstuvwxyz";
const T30: &str = "0123456789é€0123456789abcdef"; // multi-byte characters inside

/// one thread's work on the handle it owns; every result is compared with `String`
fn work(mut s: LeanString, op: u8) {
    let mut o = s.as_str().to_string();
    match op {
        0 => {}
        1 => {
            s.push('x');
            o.push('x');
        }
        2 => {
            let a = s.remove(0);
            let b = o.remove(0);
            assert_eq!(a, b, "remove returned another character than String::remove");
        }
        3 => {
            s.retain(|c| c != 'c');
            o.retain(|c| c != 'c');
        }
        4 => {
            s.clear();
            o.clear();
        }
        5 => {
            s.shrink_to_fit();
        }
        6 => {
            let other = LeanString::from("another heap string, long enough to be on the heap");
            s.clone_from(&other);
            o = other.as_str().to_string();
        }
        7 => {
            s.truncate(5);
            o.truncate(5);
        }
        8 => {
            s.reserve(100);
        }
        9 => {
            s.pop();
            o.pop();
            s.push_str("tail");
            o.push_str("tail");
        }
        10 => {
            s.insert_str(3, "é€");
            o.insert_str(3, "é€");
        }
        11 => {
            let c = s.clone();
            assert_eq!(c.as_str(), o);
            drop(s);
            s = c;
        }
        _ => unreachable!(),
    }
    assert_eq!(s.as_str(), o, "a thread read something else than its own sequential result");
    drop(s);
}

const OP_NAMES: [&str; 12] =
    ["drop", "push", "remove", "retain", "clear", "shrink", "clone_from", "truncate", "reserve", "pop_push", "insert", "clone_drop"];

/// the last two handles of one buffer, one per thread
fn pair(text: &'static str, slack: bool, a_op: u8, b_op: u8) {
    let a = if slack {
        let mut t = LeanString::with_capacity(64);
        t.push_str(text);
        t
    } else {
        LeanString::from(text)
    };
    let b = a.clone();
    let th = thread::spawn(move || work(b, b_op));
    work(a, a_op);
    th.join().unwrap();
}

/// three handles, three threads
fn triple(a_op: u8, b_op: u8, c_op: u8) {
    let a = LeanString::from(T26);
    let b = a.clone();
    let c = a.clone();
    let t1 = thread::spawn(move || work(b, b_op));
    let t2 = thread::spawn(move || work(c, c_op));
    work(a, a_op);
    t1.join().unwrap();
    t2.join().unwrap();
}

/// one `LeanString` shared by reference (`Sync`): both threads clone through `&LeanString`
fn borrowed(a_op: u8, b_op: u8) {
    let shared = loom::sync::Arc::new(LeanString::from(T30));
    let s2 = shared.clone();
    let th = thread::spawn(move || {
        assert_eq!(s2.as_str(), T30);
        let c = (*s2).clone();
        work(c, b_op);
    });
    let c = (*shared).clone();
    assert_eq!(shared.as_str(), T30);
    work(c, a_op);
    th.join().unwrap();
    assert_eq!(shared.as_str(), T30, "a handle shared by reference changed under its readers");
    drop(shared);
}

/// a handle handed on from thread to thread (release sequences on the count)
fn relay(op1: u8, op2: u8) {
    let a = LeanString::from(T26);
    let b = a.clone();
    let t1 = thread::spawn(move || {
        let c = b.clone();
        let t2 = thread::spawn(move || work(c, op2));
        work(b, op1);
        t2.join().unwrap();
    });
    drop(a);
    t1.join().unwrap();
}

struct Program {
    name: String,
    bound: Option<usize>,
    body: Box<dyn Fn() + Send + Sync + 'static>,
}

fn programs() -> Vec<Program> {
    let mut v: Vec<Program> = vec![];
    // every unordered pair of operations on the last two handles of one buffer
    for a in 0..12u8 {
        for b in a..12u8 {
            let slack = a == 5 || b == 5 || a == 8 || b == 8;
            v.push(Program {
                name: format!("pair-{}-{}", OP_NAMES[a as usize], OP_NAMES[b as usize]),
                bound: None,
                body: Box::new(move || pair(if (a + b) % 2 == 0 { T26 } else { T30 }, slack, a, b)),
            });
        }
    }
    for (a, b) in [(0u8, 0u8), (0, 1), (1, 2), (2, 4), (1, 11), (11, 11), (6, 0)] {
        v.push(Program {
            name: format!("borrowed-{}-{}", OP_NAMES[a as usize], OP_NAMES[b as usize]),
            bound: None,
            body: Box::new(move || borrowed(a, b)),
        });
    }
    for (a, b, c) in [(0u8, 0u8, 0u8), (0, 1, 2), (1, 1, 0), (2, 4, 0), (3, 6, 1), (0, 0, 5)] {
        v.push(Program {
            name: format!("triple-{}-{}-{}", OP_NAMES[a as usize], OP_NAMES[b as usize], OP_NAMES[c as usize]),
            bound: Some(3),
            body: Box::new(move || triple(a, b, c)),
        });
    }
    for (a, b) in [(0u8, 0u8), (1, 0), (0, 2), (1, 3)] {
        v.push(Program {
            name: format!("relay-{}-{}", OP_NAMES[a as usize], OP_NAMES[b as usize]),
            bound: Some(3),
            body: Box::new(move || relay(a, b)),
        });
    }
    if std::env::var_os("LSLOOM_THOROUGH").is_some() {
        // every unordered triple of nine operations on three handles of one buffer (preemption bound 3),
        // and every unordered pair of them through a shared reference
        let ops: [u8; 9] = [0, 1, 2, 3, 4, 5, 6, 7, 11];
        for (x, &a) in ops.iter().enumerate() {
            for (y, &b) in ops.iter().enumerate().skip(x) {
                for &c in ops.iter().skip(y) {
                    v.push(Program {
                        name: format!("t3-{}-{}-{}", OP_NAMES[a as usize], OP_NAMES[b as usize], OP_NAMES[c as usize]),
                        bound: Some(3),
                        body: Box::new(move || triple(a, b, c)),
                    });
                }
                v.push(Program {
                    name: format!("b2-{}-{}", OP_NAMES[a as usize], OP_NAMES[b as usize]),
                    bound: None,
                    body: Box::new(move || borrowed(a, b)),
                });
            }
        }
    }
    v
}

fn run_one(p: &Program, checkpoint: Option<std::path::PathBuf>, store: bool) -> (usize, Option<String>) {
    EXECUTIONS.store(0, StdOrd::SeqCst);
    let mut b = loom::model::Builder::new();
    b.preemption_bound = p.bound;
    b.max_branches = 100_000;
    if let Some(cp) = checkpoint {
        b.checkpoint_file = Some(cp);
        // exploring: record the path before every execution; replaying: only load it
        b.checkpoint_interval = if store { 1 } else { usize::MAX };
    }
    let body: &(dyn Fn() + Send + Sync) = &*p.body;
    // SAFETY: `check` does not return before every execution has finished; the reference outlives it
    let body: &'static (dyn Fn() + Send + Sync) = unsafe { std::mem::transmute(body) };
    let res = catch_unwind(AssertUnwindSafe(|| {
        b.check(move || {
            begin_execution();
            body();
            end_execution();
        })
    }));
    let n = EXECUTIONS.load(StdOrd::SeqCst);
    match res {
        Ok(()) => (n, None),
        Err(e) => {
            let msg = e.downcast_ref::<String>().cloned().or_else(|| e.downcast_ref::<&str>().map(|s| s.to_string())).unwrap_or_else(|| "panic".into());
            (n, Some(msg.replace('\n', " | ")))
        }
    }
}

fn main() {
    let args: Vec<String> = std::env::args().skip(1).collect();
    lean_string::verif_hooks::install(Some(&ALLOC_TABLE));
    lean_string::verif_hooks::install_access(Some(&ACCESS_TABLE));
    // failures are reported on stdout, one line each; keep loom's own panic output short
    if std::env::var_os("LSLOOM_VERBOSE").is_none() {
        std::panic::set_hook(Box::new(|_| {}));
    }
    let progs = programs();
    match args.first().map(|s| s.as_str()) {
        Some("list") => {
            for p in &progs {
                println!("{}", p.name);
            }
        }
        Some("replay") => {
            let name = args.get(1).expect("program");
            let cp = args.get(2).expect("checkpoint file");
            let p = progs.iter().find(|p| &p.name == name).expect("unknown program");
            let (n, r) = run_one(p, Some(cp.into()), false);
            match r {
                None => println!("OK program={} executions={}", p.name, n),
                Some(m) => println!("FAIL program={} executions={} msg={}", p.name, n, m),
            }
        }
        Some("one") => {
            let name = args.get(1).expect("program");
            let p = progs.iter().find(|p| &p.name == name).expect("unknown program");
            let cp = args.get(2).map(std::path::PathBuf::from);
            let (n, r) = run_one(p, cp.clone(), true);
            match r {
                None => println!("OK program={} executions={}", p.name, n),
                Some(m) => println!("FAIL program={} executions={} msg={} checkpoint={}", p.name, n, m, cp.map(|c| c.display().to_string()).unwrap_or_default()),
            }
        }
        Some("run") => {
            let mut names: Vec<&String> = vec![];
            let mut cpdir: Option<String> = None;
            let mut i = 1;
            while i < args.len() {
                if args[i] == "--checkpoint-dir" {
                    cpdir = args.get(i + 1).cloned();
                    i += 2;
                } else {
                    names.push(&args[i]);
                    i += 1;
                }
            }
            let mut failed = 0;
            let mut total = 0usize;
            for p in &progs {
                if !names.is_empty() && !names.iter().any(|n| p.name.starts_with(n.as_str())) {
                    continue;
                }
                let cp = cpdir.as_ref().map(|d| std::path::PathBuf::from(format!("{d}/{}.checkpoint.json", p.name)));
                if let Some(c) = &cp {
                    let _ = std::fs::remove_file(c);
                }
                // one process per program: a crash inside an execution is attributed to its program
                let mut cmd = std::process::Command::new(std::env::current_exe().unwrap());
                cmd.arg("one").arg(&p.name);
                if let Some(c) = &cp {
                    cmd.arg(c);
                }
                let out = cmd.output().expect("spawn");
                let text = String::from_utf8_lossy(&out.stdout).to_string();
                let line = text.lines().find(|l| l.starts_with("OK ") || l.starts_with("FAIL ")).map(|l| l.to_string());
                match line {
                    Some(l) => {
                        if let Some(n) = l.split("executions=").nth(1).and_then(|r| r.split(' ').next()).and_then(|n| n.parse::<usize>().ok()) {
                            total += n;
                        }
                        if l.starts_with("FAIL") {
                            failed += 1;
                        }
                        println!("{l}");
                    }
                    None => {
                        failed += 1;
                        let err = String::from_utf8_lossy(&out.stderr).replace('\n', " | ");
                        let tail: String = err.chars().rev().take(300).collect::<String>().chars().rev().collect();
                        println!("FAIL program={} executions=? msg=the process died ({}) {} checkpoint={}", p.name, out.status, tail, cp.map(|c| c.display().to_string()).unwrap_or_default());
                    }
                }
            }
            println!("SUMMARY programs={} failed={} executions={}", progs.len(), failed, total);
        }
        _ => {
            eprintln!("usage: lsloom list | run [<prefix>…] [--checkpoint-dir <dir>] | replay <program> <checkpoint>");
            std::process::exit(2);
        }
    }
}
