// Reference repro (not wired to any check): F1b, C04 -- two threads, one handle each on a shared
// buffer; one pushes (copy-out path), the other drops.  The pushing thread gives up its reference
// (fetch_sub) *before* it copies, so the dropping thread can free the block under the copy.
// Build as repro_sequential.rs, then
//   RUSTFLAGS=-Zsanitizer=address cargo +nightly run --offline --release --target x86_64-unknown-linux-gnu
// Pinned tree: "AddressSanitizer: heap-use-after-free ... READ of size 3800 ... in
// HeapBuffer::with_additional ... freed by thread T0 ... in <LeanString as Drop>::drop"
// within a few thousand iterations.  (Miri with 600 random-schedule seeds did not hit the window.)
use lean_string::LeanString;
use std::sync::{Arc, Barrier};
use std::thread;

fn main() {
    let text = "0123456789abcdefXYZ".repeat(200);
    let n = 200_000;
    let bar = Arc::new(Barrier::new(2));
    let (tx, rx) = std::sync::mpsc::sync_channel::<LeanString>(0);
    let (bar2, text2) = (bar.clone(), text.clone());
    let t = thread::spawn(move || {
        for _ in 0..n {
            let mut a: LeanString = rx.recv().unwrap();
            bar2.wait();
            a.push('x');
            assert!(a.len() == text2.len() + 1 && a.starts_with(&text2));
        }
    });
    for _ in 0..n {
        let b = LeanString::from(text.as_str());
        tx.send(b.clone()).unwrap();
        bar.wait();
        drop(b);
    }
    t.join().unwrap();
}
