// Reference repro (not wired to any check): the three sequential findings on the pinned tree,
// through the safe public API only.  Observed output on the unrepaired crate is quoted inline.
// Build: a scratch crate OUTSIDE /repo and /verif with `lean_string = { path = "/repo" }`,
// an empty [workspace] table and /repo/Cargo.lock copied in; `cargo run --offline`.
use lean_string::LeanString;

fn main() {
    // F1a  C02/C03/C05/C06 -- a refused reserve on a shared buffer keeps the decrement.
    {
        let mut a = LeanString::from("0123456789abcdefXYZ");
        let b = a.clone();
        assert!(a.try_reserve(usize::MAX - 100).is_err()); // 2^56 <= len+additional < 2^64
        a.remove(0); // believes it is the sole owner, edits b's bytes in place
        // pinned tree: a = "123456789abcdefXYZ", b = "123456789abcdefXYZZ", a.as_ptr() == b.as_ptr()
        println!("F1a a={a:?} b={b:?} same_ptr={}", a.as_ptr() == b.as_ptr());
        std::mem::forget((a, b)); // dropping both would free the block twice
    }
    // F1a' the same through Extend<char>, which deliberately ignores the ReserveError.
    {
        struct Liar;
        impl Iterator for Liar {
            type Item = char;
            fn next(&mut self) -> Option<char> { None }
            fn size_hint(&self) -> (usize, Option<usize>) { (usize::MAX - 1000, None) }
        }
        let mut a = LeanString::from("0123456789abcdefXYZ");
        a.reserve(40);
        let b = a.clone();
        a.extend(Liar);
        a.insert(0, '#');
        // pinned tree: b = "#0123456789abcdefXY"
        println!("F1a' a={a:?} b={b:?}");
        std::mem::forget((a, b));
    }
    // F2  C13 -- shrink_to on a shared buffer sizes the copy with the growth rule.
    {
        let mut a = LeanString::with_capacity(110);
        a.push_str(&"x".repeat(100));
        let _b = a.clone();
        a.shrink_to_fit();
        // pinned tree: capacity 110 -> 150 (unique handle: 110 -> 100)
        println!("F2 len={} cap={}", a.len(), a.capacity());
    }
    // F3  C18/C05 -- collect::<LeanString>() from chars leaks its buffer if the iterator panics
    // (count live blocks with a #[global_allocator] wrapper: one block stays live).
    {
        let r = std::panic::catch_unwind(|| {
            (0..100u32).map(|i| if i == 50 { panic!("boom") } else { 'a' }).collect::<LeanString>()
        });
        println!("F3 panicked={}", r.is_err());
    }
}
